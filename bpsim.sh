#!/bin/bash
# ./bpsim.sh <C01..C20|replay|selftest> [quick|thorough|<path>] [extra args]
# Rebuilds the simulator incrementally against /repo's current working tree, then runs it.
# exit 0 = held on everything explored; 1 = VIOLATION printed; 2 = harness error.
set -u
cd "$(dirname "$0")"
export CARGO_NET_OFFLINE=true
export BPSIM_ROOT="$(pwd)"
PROFILE=release
build() {
  ( cd sim && cargo build --offline --profile "$1" -q 2>"$BPSIM_ROOT/sim/target/build-$1.log" )
  if [ $? -ne 0 ]; then
    echo "HARNESS-ERROR build failed (profile $1); see sim/target/build-$1.log" >&2
    tail -30 "$BPSIM_ROOT/sim/target/build-$1.log" >&2
    exit 2
  fi
}
mkdir -p sim/target
build release
case "${1:-}" in
  C20)
    # C20 runs twice: library at opt-level 0 (profile zcheck, the driver) and at release (child)
    build zcheck
    export BPSIM_PROFILE=zcheck BPSIM_OTHER_BIN="$BPSIM_ROOT/sim/target/release/bpsim" BPSIM_OTHER_PROFILE=release
    exec sim/target/zcheck/bpsim "$@"
    ;;
  replay)
    if grep -q '"property": "C20"' "${2:-/dev/null}" 2>/dev/null; then
      build zcheck
      BPSIM_PROFILE=zcheck sim/target/zcheck/bpsim "$@"; rc=$?
      if [ $rc -ne 0 ]; then exit $rc; fi
      BPSIM_PROFILE=release exec sim/target/release/bpsim "$@"
    fi
    exec sim/target/release/bpsim "$@"
    ;;
  *)
    exec sim/target/release/bpsim "$@"
    ;;
esac
