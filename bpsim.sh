#!/bin/bash
# ./bpsim.sh <C01..C20|replay|selftest> [quick|thorough|<path>] [extra args]
# Rebuilds the simulator incrementally against /repo's current working tree, then runs it.
# exit 0 = held on everything explored; 1 = VIOLATION printed; 2 = harness error.
set -u
cd "$(dirname "$0")"
export CARGO_NET_OFFLINE=true
export BPSIM_ROOT="$(pwd)"
PROFILE=release
build() {
  ( cd sim && cargo build --offline --profile "$1" -q 2>"$BPSIM_ROOT/sim/target/build-$1.log" )
  if [ $? -ne 0 ]; then
    echo "HARNESS-ERROR build failed (profile $1); see sim/target/build-$1.log" >&2
    tail -30 "$BPSIM_ROOT/sim/target/build-$1.log" >&2
    exit 2
  fi
}
mkdir -p sim/target
build release
exec sim/target/release/bpsim "$@"
