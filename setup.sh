#!/bin/bash
# Build the framework from files on disk only (offline).
set -e
cd "$(dirname "$0")"
export CARGO_NET_OFFLINE=true
( cd sim && cargo build --offline --release && cargo build --offline --profile zcheck )
echo "setup ok"
