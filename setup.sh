#!/bin/bash
# Build the framework from files on disk only (offline).
set -e
cd "$(dirname "$0")"
export CARGO_NET_OFFLINE=true
( cd sim && cargo build --offline --release && cargo build --offline --profile zcheck )
# warm the Miri build of the schedule scenarios (C11, C18); failure here is reported by those checks as a harness error
( cd sim/miri-sched && MIRIFLAGS="-Zmiri-seed=0" cargo +nightly miri run --offline -q -- statics-race 2 0 ) || echo "warning: miri warm-up failed"
echo "setup ok"
