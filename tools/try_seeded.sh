#!/bin/bash
# tools/try_seeded.sh <patch.diff> <tier> <check ids...>
# Apply a seeded change to /repo, run the given checks, undo the change straight afterwards.
# Prints one line per check: "<id> CAUGHT|MISSED|ERROR exit=<n> <invariants>"
cd "$(dirname "$0")/.."
PATCH=$1; TIER=$2; shift 2
if ! git -C /repo diff --quiet; then echo "refusing: /repo has local modifications" >&2; exit 2; fi
git -C /repo apply "$PATCH" || { echo "patch does not apply" >&2; exit 2; }
trap 'git -C /repo checkout -- . ' EXIT
for id in "$@"; do
  out=$(./bpsim.sh $id $TIER --no-evidence 2>&1); code=$?
  inv=$(echo "$out" | grep -o "invariant=[a-z_A-Z:]*" | sort -u | tr '\n' ' ')
  case $code in
    1) echo "$id CAUGHT exit=1 $inv";;
    0) echo "$id MISSED exit=0";;
    *) echo "$id ERROR exit=$code $(echo "$out" | grep -E 'HARNESS|error' | head -2 | tr '\n' ' ')";;
  esac
done
