#!/bin/bash
# tools/confirm_seeded.sh <seeded dir>... : confirm in a scratch worktree (outside /repo and /verif) that
# with the change the existing suite passes and the demonstration fails, and that the demonstration
# passes without it. One line per directory; details in <dir>/confirm.log
WT=/tmp/wt-confirm
if [ ! -d $WT ]; then git -C /repo worktree add -q --detach $WT HEAD || exit 2; fi
export CARGO_NET_OFFLINE=true CARGO_TARGET_DIR=$WT/target
for d in "$@"; do
  log=$d/confirm.log; : > $log
  git -C $WT checkout -q -- . ; rm -f $WT/tests/demo.rs
  if ! git -C $WT apply $d/patch.diff 2>>$log; then echo "$(basename $d) PATCH-DOES-NOT-APPLY"; continue; fi
  ( cd $WT && cargo test --offline --workspace --no-fail-fast >>$log 2>&1 ); suite=$?
  cp $d/demo.rs $WT/tests/demo.rs
  ( cd $WT && cargo test --offline --test demo >>$log 2>&1 ); demo_with=$?
  git -C $WT checkout -q -- .
  ( cd $WT && cargo test --offline --test demo >>$log 2>&1 ); demo_without=$?
  rm -f $WT/tests/demo.rs
  ok=CONFIRMED; [ $suite -eq 0 ] && [ $demo_with -ne 0 ] && [ $demo_without -eq 0 ] || ok=NOT-CONFIRMED
  echo "$(basename $d) $ok suite_with_change=$suite demo_with_change=$demo_with demo_without_change=$demo_without"
done
