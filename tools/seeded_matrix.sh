#!/bin/bash
# tools/seeded_matrix.sh <out file> [seed] : own-property quick check for every stored seeded change, one after
# the other (each: apply to /repo, run, undo). VERIF_SEED is taken from the second argument if given.
cd "$(dirname "$0")/.."
out=$1; : > $out
if [ -n "${2:-}" ]; then export VERIF_SEED=$2; fi
for d in seeded/C??-?; do
  id=$(basename $d); prop=${id%%-*}
  if ! git -C /repo apply --check $PWD/$d/patch.diff 2>/dev/null; then echo "$id DOES-NOT-APPLY" >> $out; continue; fi
  r=$(tools/try_seeded.sh $PWD/$d/patch.diff quick $prop 2>&1 | tail -1)
  echo "$id $r" >> $out
done
echo done >> $out
