#!/usr/bin/env python3
"""Regenerate /verif/MANIFEST.json from the table below (keeps the manifest valid at all times)."""
import json, os, sys
ROOT = os.path.dirname(os.path.dirname(os.path.abspath(__file__)))

BUILT = {
 "C01": dict(cat="exploration", tech="deterministic simulation: seeded workload + RNG fault injection (FaultRng), byte-budget bounded liveness, real Ristretto and free-module group",
   text="Seeded simulation of prover nodes handed healthy and failing external RNG streams (all-zero, all-ones, constant, short-period, counter, stuck-after-n, replayed), across the configuration lattice (bits 1..64, aggregation 1..32, capacity > m, extension degree 1..6, boundary values, promises, seeds), each proof verified in all three modes alone and inside a batch. Completeness is an identity, so sampling diverse configurations under every RNG failure mode with a byte budget for prover termination is the level that fits: it decides the RNG-quantified part of the statement, which unit tests with one healthy RNG cannot.",
   note="Trusted: FreePoint is a faithful free-module stand-in for the group (every class of run also executes on real Ristretto); sampling, not proof; zero challenge (2^-252) ignored.", ref="5/C01"),
 "C03": dict(cat="exploration", tech="deterministic simulation: seeded scheduler of a verifier node decides batch membership, size and order over a duplicated/reordered message pool; refinement against the sequential reference model (one-at-a-time verification)",
   text="A simulated verifier node drains a pool of valid and defective messages; the seeded scheduler decides which members form a batch, how many (1..1100, concentrated on 255/256/257/511/512/513), with what repetition, in what order and in which mode. Oracle: batch Ok iff every member's singleton verdict is Ok, exactly k results, result i equal to member i's singleton mask; malformed shapes (empty, unequal sequence lengths, a member that disagrees on bits / extension degree / H / G_k but is valid on its own) are refused. Sizes beyond the chunk limit and invalid members placed beyond it are reached in every quick run (probe counters enforce it).",
   note="Reference verdict of a member is the library's own singleton verification (soundness of that is C02); FreePoint faithful (1 run in 5 on Ristretto); weights do not cancel by accident (2^-252).", ref="5/C03"),
 "C20": dict(cat="fault_enumeration", tech="deterministic simulation: allocator seam scanning every freed block, crash-point enumeration (RNG panic at each of its call sites, error return), simulator-owned stale-stack contents, two build profiles",
   text="Every heap block freed during a scripted life cycle (openings -> witness -> statement with seed -> prove -> verify with recovery -> drops in a seeded order) is scanned for the byte images of blinding factors, masks, the recovery seed and (64-bit) values; the life cycle is crashed at every call site of the external RNG (panic = OsRng failing with secrets live) and on the prover's error return after the witness was absorbed; a statement is dropped in place over a stack the simulator has painted (neutral / stale copies of the seed) and its bytes inspected. Enumeration is complete over crash points per configuration and runs with the library at opt-level 0 and at release.",
   note="Secrets recognised by exact byte images only; stack/register residues out of scope; Ristretto only (free-module points expose scalars by construction); the scanning wrapper itself is trusted (it wipes every freed block with volatile writes so stale harness bytes cannot resurface).", ref="5/C20"),
}

NA = {
 "C06": "pure predicate on (statement, witness) of one call: no schedule, fault, history or interleaving in it; deciding it is input enumeration, not simulation (incidentally exercised: every simulated prover output is verified under C01)",
 "C07": "pure predicate on the arguments of one call; its substitution clause is exercised by C05's fault enumeration and its relation clause by C02's reference verifier, but the property itself has nothing a scheduler or fault can act on",
 "C09": "pure function of one call's inputs; the batch position-alignment clause is checked inside C03 where batch order is a scheduler decision",
 "C10": "pure function of one call's inputs (seed, mode); no schedule, fault or history dependence",
 "C15": "acceptance set / bijectivity of a pure byte codec: deciding it is byte-string generation against a predicate (fuzzing/enumeration), not simulation",
 "C17": "pure constructors over a small finite domain: the fitting technique is exhaustive enumeration, there is nothing for a scheduler or a fault to act on",
 "C19": "regression against recorded vectors and differential testing against an independent implementation of pure functions: no schedule, fault or history in it",
}

PENDING = {'C02': 'check planned (DESIGN.md section 5) but not built yet; will be claimed when its check exists', 'C04': 'check planned (DESIGN.md section 5) but not built yet; will be claimed when its check exists', 'C05': 'check planned (DESIGN.md section 5) but not built yet; will be claimed when its check exists', 'C08': 'check planned (DESIGN.md section 5) but not built yet; will be claimed when its check exists', 'C11': 'check planned (DESIGN.md section 5) but not built yet; will be claimed when its check exists', 'C12': 'check planned (DESIGN.md section 5) but not built yet; will be claimed when its check exists', 'C13': 'check planned (DESIGN.md section 5) but not built yet; will be claimed when its check exists', 'C14': 'check planned (DESIGN.md section 5) but not built yet; will be claimed when its check exists', 'C16': 'check planned (DESIGN.md section 5) but not built yet; will be claimed when its check exists', 'C18': 'check planned (DESIGN.md section 5) but not built yet; will be claimed when its check exists'}  # id -> reason, for properties planned but whose check is not built yet

def main():
    checks = []
    for pid, b in sorted(BUILT.items()):
        checks.append({
            "property_id": pid,
            "quick_cmd": f"./bpsim.sh {pid} quick",
            "thorough_cmd": f"./bpsim.sh {pid} thorough",
            "evidence_file": f"/verif/evidence/{pid}.json",
            "replay_cmd_template": "./bpsim.sh replay {path}",
            "engine": "bpsim",
            "level_claimed": {"category": b["cat"], "text": b["text"], "design_ref": "DESIGN.md section " + b["ref"]},
            "level_note": b["note"],
            "technique": b["tech"],
        })
    na = [{"property_id": k, "reason": v} for k, v in sorted({**NA, **PENDING}.items())]
    man = {
        "version": 1,
        "setup_cmd": "./setup.sh",
        "hooks": {
            "guard": "tari_bulletproofs_plus_verif",
            "enable": "no hook is compiled into /repo: every seam is an existing interface (RNG argument, group type parameter, global allocator, cargo [patch] of merlin inside /verif/sim only); the guard name is reserved and unused",
            "baseline_off_cmd": "cd /repo && cargo test --workspace --no-fail-fast --offline",
            "source_commits": [],
            "add_only": True,
        },
        "engines": [{
            "name": "bpsim",
            "path": "/verif/sim",
            "serves_properties": sorted(BUILT.keys()),
            "kind_free_text": "own deterministic simulator: seeded scheduler/workload, FaultRng (RNG seam), FreePoint free-module group (group seam), merlin tap (Fiat-Shamir oracle observation), scanning/counting global allocator (heap seam), hostile channel; Miri's seeded scheduler for real-thread schedules",
        }],
        "checks": checks,
        "notes": "Technique studied: deterministic simulation with fault injection. Properties with no schedule, fault, history or configuration-skew dimension are answered not_applicable (see DESIGN.md section 2).",
        "not_applicable": na,
    }
    with open(os.path.join(ROOT, "MANIFEST.json"), "w") as f:
        json.dump(man, f, indent=1)
        f.write("\n")
    try:
        import jsonschema
        jsonschema.validate(man, json.load(open("/root/.vp/MANIFEST.schema.json")))
        print("MANIFEST.json valid;", len(checks), "checks,", len(na), "not applicable")
    except ImportError:
        print("jsonschema not importable; wrote MANIFEST.json unvalidated")

if __name__ == "__main__":
    main()
