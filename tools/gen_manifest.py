#!/usr/bin/env python3
"""Regenerate /verif/MANIFEST.json from the table below (keeps the manifest valid at all times)."""
import json, os, sys
ROOT = os.path.dirname(os.path.dirname(os.path.abspath(__file__)))

BUILT = {
 "C01": dict(cat="exploration", tech="deterministic simulation: seeded workload + RNG fault injection (FaultRng), byte-budget bounded liveness, real Ristretto and free-module group",
   text="Seeded simulation of prover nodes handed healthy and failing external RNG streams (all-zero, all-ones, constant, short-period, counter, stuck-after-n, replayed), across the configuration lattice (bits 1..64, aggregation 1..32, capacity > m, extension degree 1..6, boundary values, promises, seeds), each proof verified in all three modes alone and inside a batch, after a byte and a serde (bincode) round trip, and (one run in eight) after a failed proving attempt on the same transcript object; boundary inputs include identity commitments, repeated openings, special blinding factors and seeds, promises adding up to 2^64. Completeness is an identity, so sampling diverse configurations under every RNG failure mode with a byte budget for prover termination is the level that fits: it decides the RNG-quantified part of the statement, which unit tests with one healthy RNG cannot.",
   note="Trusted: FreePoint is a faithful free-module stand-in for the group (every class of run also executes on real Ristretto); sampling, not proof; zero challenge (2^-252) ignored.", ref="5/C01"),
 "C02": dict(cat="exploration", tech="deterministic simulation: hostile channel + adversarial proof crafting over a simulator-owned free-module group; Fiat-Shamir challenges tapped at the merlin seam; independent paper-form reference verifier as oracle on every verification; tuned cancelling pairs resubmitted after accepted batches; simulator-owned dishonest prover (protocol mirrored through the public API) delivering surplus-round forgeries",
   text="Every verification a simulated verifier performs (honest, channel-faulted and adversarially crafted proofs, singly and in batches) is compared with an independent unoptimised evaluation of the published relation at the challenges the library actually drew: over the free module the verifier's residual must equal w * reference residual coefficient by coefficient (so a generator or proof element weighted differently shows up on its own coordinate), on Ristretto the verdicts must agree, shape defects must be refused. This decides 'the implemented linear combination is the published one' at sampled challenge points; it has no interleaving dimension and does not prove knowledge soundness of the protocol.",
   note="Trusted: refmodel.rs (harness's reading of the paper / RFC-0181), FreePoint as a faithful group, tapped challenges (transcript layout is C04), vector generators taken from the parameters (C11).", ref="5/C02"),
 "C04": dict(cat="fault_enumeration", tech="deterministic simulation: single-datum message faults enumerated over every transcript input position; transcript event log recorded at the merlin seam; oracle over the two recorded challenge histories; unabsorbable (identity) round messages delivered in all three modes",
   text="For each sampled accepted message every datum that can be perturbed singly (context label/data, H, each G_k, bit length, each commitment, each promise, commitment order, A, each L_j, each R_j, A1, B) is faulted; verifier (and prover where possible) run with the tap on; every challenge drawn after the datum must differ, earlier ones must not; prover and verifier sequences on the honest message must be equal. Exhaustive over positions per message, sampled over messages.",
   note="Challenges identified by ordinal; aggregation factor and extension degree cannot be perturbed alone through the public API (gap: omission of M or T alone is not detected); hash collisions ignored.", ref="5/C04"),
 "C05": dict(cat="fault_enumeration", tech="deterministic simulation: hostile channel applying every single-component fault (position x replacement kind) to accepted messages; verdict oracle under catch_unwind",
   text="For each sampled accepted message EVERY single-component fault is applied (each proof scalar/point x 5 replacement kinds + bit flips, round count +-1, extension tag +-1 with/without length repair, truncation/extension, each commitment x 4, each pair swap, each promise x 5, bit length x2 and /2, H and each G_k x {point, encoding, both}, context) and delivered through from_bytes and the validating constructors; the result must be an error value: never Ok, never a panic, in VerifyOnly and RecoverAndVerify — alone, in a batch before and behind an honest companion, next to its own unaltered original, and (sampled) in the first chunk of a batch of 257. Exhaustive over fault positions per message; messages sampled across the lattice with ext 4-6 and m=8 guaranteed.",
   note="Rejection required up to 2^-252; capacity changes are not alterations (C12); zero-round proofs excluded from the byte path (decoder refuses them).", ref="5/C05"),
 "C08": dict(cat="exploration", tech="deterministic simulation: adaptive multi-round adversary against the batch verifier (cancelling pairs and triples, one member held while the other adapts, moves along public kernel directions of d1, pair positions 1..240 apart or at the edge of a full chunk); combination factors read from the MSM seam of the free-module group after every run",
   text="An adversary stronger than any real one plays 8-64 round games: after each verification run it reads the factors actually used from the verifier's final multiscalar multiplication and chooses offsets on d1[k] of two (or three) members that cancel exactly if the factors do not move, optionally touching r1/s1, permuting or resubmitting. Invariants after every submission: a batch with an invalid member is rejected, every factor is non-zero, the ratio w_i/w_j changes whenever a response scalar of i or j changed.",
   note="Factors observable only over the free module (real verifier code, stub group); accidental cancellation 2^-252.", ref="5/C08"),
 "C11": dict(cat="exploration", tech="deterministic simulation: Miri's seeded scheduler over real threads racing first use of the two lazily initialised statics (data-race detector on), seeded construction orders, fresh-process first-use orders; reference derivation as oracle",
   text="Schedule part: 2-4 real threads race the first use of both statics under Miri, one -Zmiri-seed = one schedule, three preemption rates; every thread's generators are compared with a reference derivation and Miri reports any data race. Native part: seeded construction orders over (bits, capacity) <= (64,32) x ext 1..6 on Ristretto and the free module: all points equal the documented derivation, pairwise distinct, non-identity, compressed forms equal encodings, precomputed table equals the interleaved vector (random linear combination). Fresh-process part: first use in different orders.",
   note="Reference derivation is the harness's reading of doc comments / RFC-0181; dalek's hash-to-group shared; Miri's scheduler granularity (basic blocks) and memory model trusted.", ref="5/C11"),
 "C12": dict(cat="exploration", tech="deterministic simulation: configuration skew between simulated prover and verifier nodes (table capacity randomised per node), equal-capacity baseline as reference",
   text="Each prover node and each verifier node draws its own capacity >= m; every message (valid or corrupted) is verified by >= 3 nodes of different capacity in all modes, alone and inside batches whose members carry different capacities; verdicts and masks must equal the equal-capacity baseline; generator (i, j) must be identical across capacities.",
   note="Baseline is the library's own equal-capacity verdict; FreePoint faithful (1 run in 4 on Ristretto).", ref="5/C12"),
 "C13": dict(cat="exploration", tech="deterministic simulation: histories of prover runs under different seeded RNG streams, served by the generator object itself or through a zero-sized handle onto it (RNG-shape seam); nonces read as free-module coordinates (group seam) gated by self-checks; nonce ledger + reference nonce function as oracles",
   text="Histories of 12-120 prover runs over few statements (same statement re-proved under different streams, different witnesses, with/without seed, one seed shared by statements); all ext*(2*rounds+3)+2 nonces of every proof are extracted as coordinates; oracles: non-zero, pairwise distinct within a proof, RNG-derived ones never repeated across runs with different streams, seed-derived ones equal the documented keyed BLAKE2b function.",
   note="Nonces observable only over the free module; 'unpredictable' decided as freshness/distinctness + documented derivation (dependence on the witness under RNG failure is C14).", ref="5/C13"),
 "C14": dict(cat="fault_enumeration", tech="deterministic simulation: RNG fault injection (all-zero, all-ones, constant, short-period, counter, stuck, replayed) with paired prover runs served the same faulty stream; degenerate generators make two witnesses share one commitment; public-computability oracle replays the tapped transcript",
   text="Fault modes x pair kinds (identical; same commitment with shifted blindings under G_0=G_1; same commitment with traded value under H=G_0; context / promise / commitment / bit length differs) x {seed, no seed} are enumerated round-robin; both runs get the SAME stream. Identical runs must reproduce bit for bit; different runs must share no RNG-derived nonce; within a run distinctness still holds; no nonce may equal any value computable at any RNG rebuild point from the recorded public transcript plus the known stream without the witness; the prover must finish within the RNG byte budget.",
   note="Observable only over the free module; the public-computability oracle covers the concrete attacker who evaluates the same transcript-RNG construction without the witness, not pseudorandomness of STROBE.", ref="5/C14"),
 "C16": dict(cat="exploration", tech="deterministic simulation: hostile channel delivering the cross product of proof, statement and batch shapes in child processes with write-ahead run ids; allocator seam and deterministic work counter as resource oracles",
   text="Seeded hostile deliveries (extension tag 0..8/255, rounds up to 2000 and fit+-1, lengths off by 1/31/32/33, identity/undecodable/non-canonical/all-ones elements, statement shapes incl. capacity > m and shapes the constructors must refuse, batch shapes with mixed bits/ext/capacity, a member repeated across the 256 chunk limit, unequal sequence lengths, empty, honest proofs with stacked channel faults, random bytes) in all modes; oracles: no panic under catch_unwind (overflow checks on), child process exits normally (abort attributed through the write-ahead file), allocation peak (Ristretto) and scalar-point work (free module) linear in input size. Two thirds of the runs on Ristretto because dalek's backend assertions are the hazard.",
   note="Statements built through the validating constructors only; allocation bound 4 KiB per input unit + 1 MiB; wall-clock is only a watchdog.", ref="5/C16"),
 "C18": dict(cat="exploration", tech="deterministic simulation: seeded cooperative scheduler preempting real threads INSIDE library calls at the simulator-owned seams (group operations, transcript operations, RNG reads); operation-level seeded scheduler over shared parameter objects (two interleavings + repetition + injected crashes + fresh-process baseline; every verify repeated over separately constructed parameter objects, every prove repeated through a zero-sized RNG handle); Miri's seeded scheduler with race detection",
   text="Native: 3-6 logical clients with scripts of self-contained operations over a shared pool of parameter objects; the same scripts run under two seeded interleavings, each operation is repeated, 10% of prover operations crash via an injected RNG panic and the following operations must be served unaffected; sampled operations also run first in a fresh process; an operation's result digest must be a function of its descriptor only. Cooperative threads: 2-3 OS threads share one parameter object whose capacity exceeds every aggregate and prove / verify aggregates of different sizes; each parks at every group operation, transcript operation and RNG read and the seeded scheduler decides who continues (one seed = one replayable interleaving inside library calls); every result must equal the same operation executed alone. Schedule: Miri interprets 2-3 real threads racing first use of the statics, sharing one precomputed table, and (thorough) proving/verifying concurrently, compared with a single-threaded reference.",
   note="Operation-level atomicity assumed in the native part (the shared state that exists is inside the Miri scenarios); full-protocol Miri schedules are few (2.5 min each) and thorough-only.", ref="5/C18"),
 "C03": dict(cat="exploration", tech="deterministic simulation: seeded scheduler of a verifier node decides batch membership, size and order over a duplicated/reordered message pool; refinement against the sequential reference model (one-at-a-time verification)",
   text="A simulated verifier node drains a pool of valid and defective messages; the seeded scheduler decides which members form a batch, how many (1..1100, concentrated on 255/256/257/511/512/513), with what repetition, in what order and in which mode. Oracle: batch Ok iff every member's singleton verdict is Ok, exactly k results, result i equal to member i's singleton mask; malformed shapes (empty, unequal sequence lengths incl. chunk-aligned ones, a member that disagrees on bits / extension degree / H / G_k but is valid on its own) are refused; pools contain honest/defective twins delivered next to each other, malformed members, and aggregated statements carrying a seed in their public field. Sizes beyond the chunk limit and invalid members placed beyond it are reached in every quick run (probe counters enforce it).",
   note="Reference verdict of a member is the library's own singleton verification (soundness of that is C02); FreePoint faithful (1 run in 5 on Ristretto); weights do not cancel by accident (2^-252).", ref="5/C03"),
 "C20": dict(cat="fault_enumeration", tech="deterministic simulation: allocator seam scanning every freed block, crash-point enumeration (RNG panic at each of its call sites, error return), simulator-owned stale-stack contents, two build profiles",
   text="Every heap block freed during a scripted life cycle (openings -> witness -> statement with seed -> prove -> verify with recovery -> drops in a seeded order) is scanned for the byte images of blinding factors, masks, the recovery seed and (64-bit) values; the life cycle is crashed at every call site of the external RNG (panic = OsRng failing with secrets live) and on the prover's error return after the witness was absorbed; a statement is dropped in place over a stack the simulator has painted (neutral / stale copies of the seed) and its bytes inspected; the life cycle also covers clone_from on the owning types, several seeded members recovered in one batch, verifier error returns with masks live, and the scalar image of the bit decomposition. Enumeration is complete over crash points per configuration and runs with the library at opt-level 0 and at release.",
   note="Secrets recognised by exact byte images only; stack/register residues out of scope; Ristretto only (free-module points expose scalars by construction); the scanning wrapper itself is trusted (it wipes every freed block with volatile writes so stale harness bytes cannot resurface).", ref="5/C20"),
}

NA = {
 "C06": "pure predicate on (statement, witness) of one call: no schedule, fault, history or interleaving in it; deciding it is input enumeration, not simulation (incidentally exercised: every simulated prover output is verified under C01)",
 "C07": "pure predicate on the arguments of one call; its substitution clause is exercised by C05's fault enumeration and its relation clause by C02's reference verifier, but the property itself has nothing a scheduler or fault can act on",
 "C09": "pure function of one call's inputs; the batch position-alignment clause is checked inside C03 where batch order is a scheduler decision",
 "C10": "pure function of one call's inputs (seed, mode); no schedule, fault or history dependence",
 "C15": "acceptance set / bijectivity of a pure byte codec: deciding it is byte-string generation against a predicate (fuzzing/enumeration), not simulation",
 "C17": "pure constructors over a small finite domain: the fitting technique is exhaustive enumeration, there is nothing for a scheduler or a fault to act on",
 "C19": "regression against recorded vectors and differential testing against an independent implementation of pure functions: no schedule, fault or history in it",
}

PENDING = {}  # id -> reason, for properties planned but whose check is not built yet

def main():
    checks = []
    for pid, b in sorted(BUILT.items()):
        checks.append({
            "property_id": pid,
            "quick_cmd": f"./bpsim.sh {pid} quick",
            "thorough_cmd": f"./bpsim.sh {pid} thorough",
            "evidence_file": f"/verif/evidence/{pid}.json",
            "replay_cmd_template": "./bpsim.sh replay {path}",
            "engine": "bpsim",
            "level_claimed": {"category": b["cat"], "text": b["text"], "design_ref": "DESIGN.md section " + b["ref"]},
            "level_note": b["note"],
            "technique": b["tech"],
        })
    na = [{"property_id": k, "reason": v} for k, v in sorted({**NA, **PENDING}.items())]
    man = {
        "version": 1,
        "setup_cmd": "./setup.sh",
        "hooks": {
            "guard": "tari_bulletproofs_plus_verif",
            "enable": "no hook is compiled into /repo: every seam is an existing interface (RNG argument, group type parameter, global allocator, cargo [patch] of merlin inside /verif/sim only); the guard name is reserved and unused",
            "baseline_off_cmd": "cd /repo && cargo test --workspace --no-fail-fast --offline",
            "source_commits": [],
            "add_only": True,
        },
        "engines": [{
            "name": "bpsim",
            "path": "/verif/sim",
            "serves_properties": sorted(BUILT.keys()),
            "kind_free_text": "own deterministic simulator: seeded scheduler/workload, FaultRng (RNG seam), FreePoint free-module group (group seam), merlin tap (Fiat-Shamir oracle observation), scanning/counting global allocator (heap seam), hostile channel; Miri's seeded scheduler for real-thread schedules",
        }],
        "checks": checks,
        "notes": "Technique studied: deterministic simulation with fault injection. Properties with no schedule, fault, history or configuration-skew dimension are answered not_applicable (see DESIGN.md section 2).",
        "not_applicable": na,
    }
    with open(os.path.join(ROOT, "MANIFEST.json"), "w") as f:
        json.dump(man, f, indent=1)
        f.write("\n")
    try:
        import jsonschema
        jsonschema.validate(man, json.load(open("/root/.vp/MANIFEST.schema.json")))
        print("MANIFEST.json valid;", len(checks), "checks,", len(na), "not applicable")
    except ImportError:
        print("jsonschema not importable; wrote MANIFEST.json unvalidated")

if __name__ == "__main__":
    main()
