#!/bin/bash
# Determinism proof: every check's seeded runs are executed twice, in separate processes, with
# 16 and with 3 workers; the per-run event-log hashes must be identical. Miri scenarios: the
# same seeds twice, schedule signatures must be identical.
cd "$(dirname "$0")/.."
export CARGO_NET_OFFLINE=true BPSIM_ROOT="$(pwd)" BPSIM_NO_MIRI=1
( cd sim && cargo build --offline --release -q 2>/dev/null && cargo build --offline --profile zcheck -q 2>/dev/null ) || exit 2
N=${1:-512}
T=$(mktemp -d)
rc=0
for id in C01 C02 C03 C04 C05 C08 C11 C12 C13 C14 C16 C18 C20; do
  bin=sim/target/release/bpsim
  extra=""
  [ $id = C16 ] && extra="--child-json $T/child.json"
  [ $id = C20 ] && bin=sim/target/zcheck/bpsim && extra="--child-json $T/child.json"
  n=$N; [ $id = C03 ] && n=$((N/4)); [ $id = C18 ] && n=$((N/4))
  VERIF_SEED=${VERIF_SEED:-777} $bin $id --runs $n --jobs 16 --no-evidence --dump-hashes $T/$id.a $extra >/dev/null 2>&1
  VERIF_SEED=${VERIF_SEED:-777} $bin $id --runs $n --jobs 3 --no-evidence --dump-hashes $T/$id.b $extra >/dev/null 2>&1
  if cmp -s $T/$id.a $T/$id.b && [ -s $T/$id.a ]; then echo "$id deterministic over $(wc -l < $T/$id.a) runs (16 vs 3 workers)"; else echo "$id NONDETERMINISTIC"; rc=1; fi
done
if [ "${SKIP_MIRI:-0}" != 1 ]; then
  for s in 1 2 3 4 5 6 7 8; do
    for rep in a b; do
      ( cd sim/miri-sched && MIRIFLAGS="-Zmiri-seed=$s -Zmiri-preemption-rate=0.05" cargo +nightly miri run --offline -q -- statics-race 3 $s 2>/dev/null | grep ^SIG > $T/miri.$s.$rep ) &
    done
  done
  wait
  for s in 1 2 3 4 5 6 7 8; do cmp -s $T/miri.$s.a $T/miri.$s.b && [ -s $T/miri.$s.a ] || { echo "miri seed $s NONDETERMINISTIC"; rc=1; }; done
  [ $rc = 0 ] && echo "miri statics-race: 8 seeds x 2 runs, identical schedule signatures"
fi
rm -rf $T
exit $rc
