#!/bin/bash
# tools/run_thorough.sh [ids...] — run thorough tiers in /verif against /repo, keep a copy of each evidence file
cd "$(dirname "$0")/.."
mkdir -p evidence_thorough
IDS=${@:-C01 C02 C03 C04 C05 C08 C12 C13 C14 C16 C20 C11 C18}
for id in $IDS; do
  s=$(date +%s); out=$(./bpsim.sh $id thorough 2>&1); code=$?; e=$(date +%s)
  echo "$id exit=$code $((e-s))s $(echo "$out" | grep '^done')"
  [ $code -ne 0 ] && echo "$out" | grep -E "VIOLATION|HARNESS|violation:" | head -5
  cp evidence/$id.json evidence_thorough/$id.json
done
