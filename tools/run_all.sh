#!/bin/bash
# tools/run_all.sh [quick|thorough] [ids...] — run registered checks, validate evidence
cd "$(dirname "$0")/.."
TIER=${1:-quick}; shift
IDS=${@:-C01 C02 C03 C04 C05 C08 C11 C12 C13 C14 C16 C18 C20}
rc=0
for id in $IDS; do
  s=$(date +%s)
  out=$(./bpsim.sh $id $TIER 2>&1); code=$?
  e=$(date +%s)
  echo "$id exit=$code $((e-s))s $(echo "$out" | grep '^done' )"
  if [ $code -ne 0 ]; then echo "$out" | grep -E "VIOLATION|HARNESS|violation:" | head -5; rc=1; fi
done
python3-vt - <<'PY'
import json,jsonschema,glob
sch=json.load(open('/root/.vp/EVIDENCE.schema.json'))
for f in sorted(glob.glob('/verif/evidence/*.json')):
    ev=json.load(open(f))
    try:
        jsonschema.validate(ev,sch); print(f.split('/')[-1],'valid',ev['tier'],ev['coverage']['evaluations'],ev['coverage']['distinct_nontrivial'])
    except Exception as e:
        print(f,'INVALID',str(e)[:200])
PY
exit $rc
