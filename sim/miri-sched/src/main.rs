//! Miri-scheduled scenarios for C11 / C18. Parameters travel in argv only.
//!
//!   statics-race <threads> <variant>
//!   shared-table <threads>
//!   shared-params <threads> <bits>
//!   shared-verify <threads> <bits> <capacity> {<proof hex> <commitments hex> <accept|reject>}...
//!
//! Output: one line `SIG <thread.checkpoint,...>` (schedule signature: order in which threads
//! passed harness-level checkpoints, taken with a Relaxed ticket counter that adds no
//! happens-before edge) and one line `RESULT ok` or `RESULT mismatch <what>`.

use std::{
    convert::TryFrom,
    sync::{
        atomic::{AtomicUsize, Ordering},
        Arc, Barrier, Mutex,
    },
    thread,
};

use curve25519_dalek::{
    constants::{RISTRETTO_BASEPOINT_COMPRESSED, RISTRETTO_BASEPOINT_POINT},
    ristretto::{CompressedRistretto, RistrettoPoint},
    scalar::Scalar,
    traits::VartimePrecomputedMultiscalarMul,
};
use digest::Digest;
use merlin::Transcript;
use rand_core::{CryptoRng, RngCore};
use sha3::Sha3_512;
use tari_bulletproofs_plus::{
    commitment_opening::CommitmentOpening,
    generators::pedersen_gens::ExtensionDegree,
    range_parameters::RangeParameters,
    range_proof::{RangeProof, VerifyAction},
    range_statement::RangeStatement,
    range_witness::RangeWitness,
    ristretto::create_pedersen_gens_with_extension_degree,
};

static TICKET: AtomicUsize = AtomicUsize::new(0);

fn checkpoint(log: &Mutex<Vec<(usize, usize, usize)>>, thread: usize, cp: usize) {
    let t = TICKET.fetch_add(1, Ordering::Relaxed);
    log.lock().unwrap().push((t, thread, cp));
}

fn signature(log: &Mutex<Vec<(usize, usize, usize)>>) -> String {
    let mut v = log.lock().unwrap().clone();
    v.sort();
    v.iter().map(|(_, th, cp)| format!("{}.{}", th, cp)).collect::<Vec<_>>().join(",")
}

/// reference derivation of the k-th masking base point (k = 1..=6), harness code
fn reference_masking_point(k: usize) -> RistrettoPoint {
    let label = format!("RISTRETTO_MASKING_BASEPOINT_{}", k);
    let mut h = Sha3_512::default();
    h.update(label.as_bytes());
    let out: [u8; 64] = h.finalize().into();
    RistrettoPoint::from_uniform_bytes(&out)
}

struct XorShift(u64);
impl RngCore for XorShift {
    fn next_u32(&mut self) -> u32 {
        self.next_u64() as u32
    }

    fn next_u64(&mut self) -> u64 {
        self.0 ^= self.0 << 13;
        self.0 ^= self.0 >> 7;
        self.0 ^= self.0 << 17;
        self.0
    }

    fn fill_bytes(&mut self, dest: &mut [u8]) {
        for c in dest.chunks_mut(8) {
            let v = self.next_u64().to_le_bytes();
            c.copy_from_slice(&v[..c.len()]);
        }
    }

    fn try_fill_bytes(&mut self, dest: &mut [u8]) -> Result<(), rand_core::Error> {
        self.fill_bytes(dest);
        Ok(())
    }
}
impl CryptoRng for XorShift {}

fn statics_race(threads: usize, variant: usize) -> Result<(), String> {
    let log = Arc::new(Mutex::new(Vec::new()));
    let barrier = Arc::new(Barrier::new(threads));
    let mut handles = Vec::new();
    for t in 0..threads {
        let log = log.clone();
        let barrier = barrier.clone();
        handles.push(thread::spawn(move || {
            // different degrees so that threads enter through either static first
            let ext = match variant % 3 {
                0 => 1 + (t * 5) % 6,
                1 => 6 - (t % 6),
                _ => 1 + (t % 2) * 5,
            };
            barrier.wait();
            checkpoint(&log, t, 0);
            let pc = create_pedersen_gens_with_extension_degree(ExtensionDegree::try_from(ext).unwrap());
            checkpoint(&log, t, 1);
            (ext, pc)
        }));
    }
    let mut results = Vec::new();
    for h in handles {
        results.push(h.join().map_err(|_| "a thread panicked".to_string())?);
    }
    println!("SIG {}", signature(&log));
    let reference: Vec<RistrettoPoint> = (1..=6).map(reference_masking_point).collect();
    for (t, (ext, pc)) in results.iter().enumerate() {
        if pc.h_base != RISTRETTO_BASEPOINT_POINT || pc.h_base_compressed != RISTRETTO_BASEPOINT_COMPRESSED {
            return Err(format!("thread {}: value generator is not the Ristretto base point", t));
        }
        if pc.g_base_vec.len() != *ext || pc.g_base_compressed_vec.len() != *ext {
            return Err(format!("thread {}: wrong number of blinding generators", t));
        }
        for k in 0..*ext {
            if pc.g_base_vec[k] != reference[k] {
                return Err(format!("thread {}: blinding generator {} differs from the reference derivation", t, k));
            }
            if pc.g_base_compressed_vec[k] != reference[k].compress() {
                return Err(format!("thread {}: compressed blinding generator {} is not the encoding of the reference point", t, k));
            }
            if pc.g_base_compressed_vec[k] == CompressedRistretto([0u8; 32]) {
                return Err(format!("thread {}: blinding generator {} is the identity", t, k));
            }
        }
    }
    Ok(())
}

fn shared_table(threads: usize) -> Result<(), String> {
    let log = Arc::new(Mutex::new(Vec::new()));
    let pc = create_pedersen_gens_with_extension_degree(ExtensionDegree::DefaultPedersen);
    let params = RangeParameters::<RistrettoPoint>::init(1, 1, pc).map_err(|e| format!("{:?}", e))?;
    let barrier = Arc::new(Barrier::new(threads));
    let mut handles = Vec::new();
    for t in 0..threads {
        let p = params.clone();
        let log = log.clone();
        let barrier = barrier.clone();
        handles.push(thread::spawn(move || {
            let scalars = [Scalar::from(3u64 + t as u64), Scalar::from(5u64 + t as u64)];
            barrier.wait();
            checkpoint(&log, t, 0);
            let r = p.precomp().vartime_multiscalar_mul(scalars.iter());
            checkpoint(&log, t, 1);
            drop(p);
            checkpoint(&log, t, 2);
            r
        }));
    }
    let mut results = Vec::new();
    for h in handles {
        results.push(h.join().map_err(|_| "a thread panicked".to_string())?);
    }
    println!("SIG {}", signature(&log));
    let g0 = params.gi_base_iter().next().unwrap();
    let h0 = params.hi_base_iter().next().unwrap();
    for (t, r) in results.iter().enumerate() {
        let want = g0 * Scalar::from(3u64 + t as u64) + h0 * Scalar::from(5u64 + t as u64);
        if *r != want {
            return Err(format!("thread {}: result through the shared precomputed table differs from the sequential reference", t));
        }
    }
    Ok(())
}

fn one_proof(params: &RangeParameters<RistrettoPoint>, value: u64, seed: u64) -> Result<(Vec<u8>, bool), String> {
    let blind = Scalar::from(seed.wrapping_mul(0x9E37_79B9_7F4A_7C15) | 1);
    let c = params.pc_gens().commit(&Scalar::from(value), &[blind]).map_err(|e| format!("{:?}", e))?;
    let w = RangeWitness::init(vec![CommitmentOpening::new(value, vec![blind])]).map_err(|e| format!("{:?}", e))?;
    let st = RangeStatement::init(params.clone(), vec![c], vec![None], None).map_err(|e| format!("{:?}", e))?;
    let mut rng = XorShift(seed | 1);
    let mut t = Transcript::new(b"miri-sched");
    let proof = RangeProof::prove_with_rng(&mut t, &st, &w, &mut rng).map_err(|e| format!("{:?}", e))?;
    let ok = RangeProof::verify_batch(&mut [Transcript::new(b"miri-sched")], &[st], &[proof.clone()], VerifyAction::VerifyOnly).is_ok();
    Ok((proof.to_bytes(), ok))
}

fn shared_params(threads: usize, bits: usize) -> Result<(), String> {
    let log = Arc::new(Mutex::new(Vec::new()));
    // parameters are created by racing threads sharing nothing but the lazily initialised statics;
    // thread 0's parameters are then cloned into every thread (one Arc table)
    let barrier = Arc::new(Barrier::new(threads));
    let shared: Arc<Mutex<Option<RangeParameters<RistrettoPoint>>>> = Arc::new(Mutex::new(None));
    let mut handles = Vec::new();
    for t in 0..threads {
        let log = log.clone();
        let barrier = barrier.clone();
        let shared = shared.clone();
        handles.push(thread::spawn(move || -> Result<(Vec<u8>, bool), String> {
            barrier.wait();
            checkpoint(&log, t, 0);
            let pc = create_pedersen_gens_with_extension_degree(ExtensionDegree::DefaultPedersen);
            let params = {
                let mut g = shared.lock().unwrap();
                if g.is_none() {
                    *g = Some(RangeParameters::init(bits, 1, pc).map_err(|e| format!("{:?}", e))?);
                }
                g.as_ref().unwrap().clone()
            };
            checkpoint(&log, t, 1);
            let r = one_proof(&params, (t as u64) % (1 << bits), 1000 + t as u64);
            checkpoint(&log, t, 2);
            r
        }));
    }
    let mut results = Vec::new();
    for h in handles {
        results.push(h.join().map_err(|_| "a thread panicked".to_string())??);
    }
    println!("SIG {}", signature(&log));
    // single-threaded reference after the join
    let pc = create_pedersen_gens_with_extension_degree(ExtensionDegree::DefaultPedersen);
    let params = RangeParameters::init(bits, 1, pc).map_err(|e| format!("{:?}", e))?;
    for (t, (bytes, ok)) in results.iter().enumerate() {
        let (want, want_ok) = one_proof(&params, (t as u64) % (1 << bits), 1000 + t as u64)?;
        if !ok || !want_ok {
            return Err(format!("thread {}: honest proof rejected (concurrent: {}, sequential: {})", t, ok, want_ok));
        }
        if *bytes != want {
            return Err(format!("thread {}: proof bytes differ from the single-threaded reference", t));
        }
    }
    Ok(())
}

fn unhex(s: &str) -> Vec<u8> {
    (0..s.len() / 2).map(|i| u8::from_str_radix(&s[2 * i..2 * i + 2], 16).unwrap_or(0)).collect()
}

/// Threads share one parameter object (capacity `cap`, possibly larger than any aggregate) and
/// concurrently decode and verify proofs made natively by the driver and handed over in argv.
/// `kinds` = [(proof hex, concatenated commitments hex, expected verdict)]; thread t verifies kind
/// t % kinds.len(), so concurrent calls may have different aggregation factors. First use of the
/// statics is raced as well.
fn shared_verify(threads: usize, bits: usize, cap: usize, kinds: Vec<(String, String, bool)>) -> Result<(), String> {
    if kinds.is_empty() {
        return Err("no proof kinds given".into());
    }
    let log = Arc::new(Mutex::new(Vec::new()));
    let mut parsed = Vec::new();
    for (ph, ch, expect) in &kinds {
        let cb = unhex(ch);
        if cb.is_empty() || cb.len() % 32 != 0 {
            return Err("commitments must be a multiple of 32 bytes".into());
        }
        let mut cs = Vec::new();
        for chunk in cb.chunks(32) {
            let mut c = [0u8; 32];
            c.copy_from_slice(chunk);
            cs.push(CompressedRistretto(c).decompress().ok_or("commitment does not decode")?);
        }
        parsed.push((unhex(ph), cs, *expect));
    }
    let parsed = Arc::new(parsed);
    let barrier = Arc::new(Barrier::new(threads));
    let shared: Arc<Mutex<Option<RangeParameters<RistrettoPoint>>>> = Arc::new(Mutex::new(None));
    let mut handles = Vec::new();
    for t in 0..threads {
        let log = log.clone();
        let barrier = barrier.clone();
        let shared = shared.clone();
        let parsed = parsed.clone();
        handles.push(thread::spawn(move || -> Result<(bool, bool), String> {
            let (proof_bytes, commitments, expect) = &parsed[t % parsed.len()];
            barrier.wait();
            checkpoint(&log, t, 0);
            let pc = create_pedersen_gens_with_extension_degree(ExtensionDegree::DefaultPedersen);
            let params = {
                let mut g = shared.lock().unwrap();
                if g.is_none() {
                    *g = Some(RangeParameters::init(bits, cap, pc).map_err(|e| format!("{:?}", e))?);
                }
                g.as_ref().unwrap().clone()
            };
            checkpoint(&log, t, 1);
            let n = commitments.len();
            let st = RangeStatement::init(params, commitments.clone(), vec![None; n], None).map_err(|e| format!("{:?}", e))?;
            let proof = RangeProof::<RistrettoPoint>::from_bytes(proof_bytes).map_err(|e| format!("{:?}", e))?;
            checkpoint(&log, t, 2);
            let ok = RangeProof::verify_batch(&mut [Transcript::new(b"miri-sched")], &[st], &[proof], VerifyAction::VerifyOnly).is_ok();
            checkpoint(&log, t, 3);
            Ok((ok, *expect))
        }));
    }
    let mut results = Vec::new();
    for h in handles {
        results.push(h.join().map_err(|_| "a thread panicked inside a library call".to_string())??);
    }
    println!("SIG {}", signature(&log));
    for (t, (ok, expect)) in results.iter().enumerate() {
        if ok != expect {
            return Err(format!("thread {}: concurrent verification returned {} where the single-threaded verdict is {}", t, ok, expect));
        }
    }
    Ok(())
}

fn main() {
    let args: Vec<String> = std::env::args().skip(1).collect();
    let num = |i: usize, d: usize| args.get(i).and_then(|s| s.parse().ok()).unwrap_or(d);
    let r = match args.first().map(|s| s.as_str()) {
        Some("statics-race") => statics_race(num(1, 3), num(2, 0)),
        Some("shared-table") => shared_table(num(1, 2)),
        Some("shared-params") => shared_params(num(1, 2), num(2, 1)),
        Some("shared-verify") => {
            let kinds: Vec<(String, String, bool)> = args[4.min(args.len())..]
                .chunks(3)
                .filter(|c| c.len() == 3)
                .map(|c| (c[0].clone(), c[1].clone(), c[2] != "reject"))
                .collect();
            shared_verify(num(1, 2), num(2, 2), num(3, 1), kinds)
        },
        _ => Err("usage: miri-sched <statics-race|shared-table|shared-params> ...".to_string()),
    };
    match r {
        Ok(()) => println!("RESULT ok"),
        Err(e) => {
            println!("RESULT mismatch {}", e);
            std::process::exit(3);
        },
    }
}
