//! Run discipline: one integer decides a run; resolved scenarios; event-log hashes; minimisation;
//! replay files; evidence.

use std::{
    collections::{BTreeMap, BTreeSet},
    path::PathBuf,
    sync::{
        atomic::{AtomicBool, AtomicU64, Ordering},
        Mutex,
    },
    time::Instant,
};

use blake2::{digest::consts::U32, Blake2b, Digest};
use serde::{de::DeserializeOwned, Deserialize, Serialize};
use serde_json::{json, Value};

use crate::simrng::SimRng;

type Blake2b256 = Blake2b<U32>;

#[derive(Clone, Copy, Debug, PartialEq, Eq)]
pub enum Tier {
    Quick,
    Thorough,
}

impl Tier {
    pub fn name(&self) -> &'static str {
        match self {
            Tier::Quick => "quick",
            Tier::Thorough => "thorough",
        }
    }
}

#[derive(Clone, Debug, Serialize, Deserialize)]
pub struct Violation {
    /// name of the invariant that failed (the violation class used by minimisation and replay)
    pub invariant: String,
    /// identity of the failing input / call site, used to match known findings
    pub key: String,
    pub detail: String,
}

impl Violation {
    pub fn new(invariant: &str, key: impl Into<String>, detail: impl Into<String>) -> Self {
        Violation { invariant: invariant.to_string(), key: key.into(), detail: detail.into() }
    }
}

pub struct RunStats {
    pub faults: BTreeMap<String, u64>,
    pub probes: BTreeMap<String, u64>,
    pub groups: BTreeMap<String, u64>,
    pub steps: u64,
    pub evals: u64,
    pub nontrivial: bool,
    hasher: Blake2b256,
    pub keep_log: bool,
    pub log: Vec<String>,
    seq: u64,
}

impl Default for RunStats {
    fn default() -> Self {
        RunStats {
            faults: BTreeMap::new(),
            probes: BTreeMap::new(),
            groups: BTreeMap::new(),
            steps: 0,
            evals: 0,
            nontrivial: false,
            hasher: Blake2b256::new(),
            keep_log: false,
            log: Vec::new(),
            seq: 0,
        }
    }
}

impl RunStats {
    /// A fault that actually fired (not merely configured).
    pub fn fault(&mut self, kind: &str) {
        *self.faults.entry(kind.to_string()).or_insert(0) += 1;
        self.nontrivial = true;
    }

    pub fn probe(&mut self, name: &str) {
        *self.probes.entry(name.to_string()).or_insert(0) += 1;
    }

    pub fn probe_n(&mut self, name: &str, n: u64) {
        *self.probes.entry(name.to_string()).or_insert(0) += n;
    }

    pub fn group(&mut self, name: &str) {
        *self.groups.entry(name.to_string()).or_insert(0) += 1;
    }

    /// Append one line to the run's event log (sequence-numbered, hashed; never draws, never
    /// reads a clock).
    pub fn event(&mut self, line: impl AsRef<str>) {
        self.seq += 1;
        self.steps += 1;
        let l = format!("{:05} {}", self.seq, line.as_ref());
        self.hasher.update(l.as_bytes());
        self.hasher.update(b"\n");
        if self.keep_log {
            self.log.push(l);
        }
    }

    pub fn log_hash(&self) -> [u8; 32] {
        let mut out = [0u8; 32];
        out.copy_from_slice(&self.hasher.clone().finalize());
        out
    }
}

pub fn digest(parts: &[&[u8]]) -> String {
    let mut h = Blake2b256::new();
    for p in parts {
        h.update((p.len() as u64).to_le_bytes());
        h.update(p);
    }
    hex::encode(&h.finalize()[..12])
}

pub trait Check: Sync {
    type Scenario: Serialize + DeserializeOwned + Clone + Send + Sync;

    fn id(&self) -> &'static str;
    fn level(&self) -> &'static str;
    fn rule(&self) -> String;
    fn assumptions(&self) -> Vec<String>;
    fn components(&self) -> Value;
    /// number of seeded runs of this tier
    fn runs(&self, tier: Tier) -> u64;
    /// Resolve run `index` into an explicit scenario. Pure function of (rng, tier, index).
    fn generate(&self, rng: &mut SimRng, tier: Tier, index: u64) -> Self::Scenario;
    /// Execute a resolved scenario. Pure function of the scenario and the code under test.
    fn execute(&self, sc: &Self::Scenario, st: &mut RunStats) -> Vec<Violation>;
    /// Simpler candidate scenarios, most aggressive first.
    fn shrink(&self, _sc: &Self::Scenario) -> Vec<Self::Scenario> {
        Vec::new()
    }
    /// Probe counters that must be non-zero after a full batch of this tier (reach self-check).
    fn required_probes(&self, _tier: Tier) -> Vec<&'static str> {
        Vec::new()
    }
}

#[derive(Clone, Debug)]
pub struct Opts {
    pub tier: Tier,
    pub seed: u64,
    pub jobs: usize,
    pub root: PathBuf,
    /// override the number of runs (selftests)
    pub runs: Option<u64>,
    /// dump per-run log hashes to this file (determinism selftest)
    pub dump_hashes: Option<PathBuf>,
    pub write_evidence: bool,
    /// wall-clock safety cap in seconds for the seeded batch (never a verdict)
    pub max_wall_s: u64,
    /// child mode: write a machine-readable summary here instead of evidence / VIOLATION lines
    pub child_json: Option<PathBuf>,
    /// child mode: only run indices congruent to .0 modulo .1
    pub stride: Option<(u64, u64)>,
    /// child mode: write the index of the run about to execute here (write-ahead, for abort attribution)
    pub wal: Option<PathBuf>,
    /// enforce Check::required_probes
    pub check_probes: bool,
}

#[derive(Clone, Debug, Deserialize)]
pub struct KnownFinding {
    pub property: String,
    pub kind: String,
    pub key: String,
    #[serde(default)]
    pub what: String,
}

pub fn load_known(root: &PathBuf) -> Vec<KnownFinding> {
    let p = root.join("known_findings.json");
    match std::fs::read_to_string(&p) {
        Ok(s) => {
            let v: Value = serde_json::from_str(&s).expect("known_findings.json parses");
            serde_json::from_value(v["findings"].clone()).unwrap_or_default()
        },
        Err(_) => Vec::new(),
    }
}

pub struct Found<S> {
    pub index: u64,
    pub scenario: S,
    pub violation: Violation,
}

pub struct BatchResult<S> {
    pub runs: u64,
    pub evals: u64,
    pub steps: u64,
    pub distinct_nontrivial: u64,
    pub faults: BTreeMap<String, u64>,
    pub probes: BTreeMap<String, u64>,
    pub groups: BTreeMap<String, u64>,
    pub samples: Vec<Value>,
    pub found: Vec<Found<S>>,
    pub known_hits: BTreeMap<String, (String, u64)>,
    pub wall_s: f64,
    pub truncated: bool,
}

/// Execute the seeded batch of `check` on `opts.jobs` workers. A run never shares mutable state
/// with another run, so the worker count cannot change any run's behaviour.
pub fn run_batch<C: Check>(check: &C, opts: &Opts) -> BatchResult<C::Scenario> {
    let total = opts.runs.unwrap_or_else(|| check.runs(opts.tier));
    let next = AtomicU64::new(0);
    let stop = AtomicBool::new(false);
    let start = Instant::now();
    let known = load_known(&opts.root);
    struct Acc<S> {
        runs: u64,
        evals: u64,
        steps: u64,
        hashes: BTreeSet<[u8; 32]>,
        faults: BTreeMap<String, u64>,
        probes: BTreeMap<String, u64>,
        groups: BTreeMap<String, u64>,
        samples: BTreeMap<u64, Value>,
        found: Vec<Found<S>>,
        known_hits: BTreeMap<String, (String, u64)>,
        all_hashes: BTreeMap<u64, String>,
    }
    let acc = Mutex::new(Acc::<C::Scenario> {
        runs: 0,
        evals: 0,
        steps: 0,
        hashes: BTreeSet::new(),
        faults: BTreeMap::new(),
        probes: BTreeMap::new(),
        groups: BTreeMap::new(),
        samples: BTreeMap::new(),
        found: Vec::new(),
        known_hits: BTreeMap::new(),
        all_hashes: BTreeMap::new(),
    });
    let dump = opts.dump_hashes.is_some();
    std::thread::scope(|scope| {
        for _ in 0..opts.jobs.max(1) {
            scope.spawn(|| {
                crate::world::install_quiet_panic_hook();
                loop {
                    if stop.load(Ordering::Relaxed) {
                        break;
                    }
                    let i = next.fetch_add(1, Ordering::Relaxed);
                    let i = match opts.stride {
                        Some((k, j)) => k + i * j,
                        None => i,
                    };
                    if i >= total {
                        break;
                    }
                    if let Some(w) = &opts.wal {
                        let _ = std::fs::write(w, i.to_string());
                    }
                    if start.elapsed().as_secs() > opts.max_wall_s {
                        stop.store(true, Ordering::Relaxed);
                        break;
                    }
                    let mut rng = SimRng::for_run(opts.seed, check.id(), i);
                    let sc = check.generate(&mut rng, opts.tier, i);
                    // every run executes on its own fresh OS thread: neither the simulator's nor the
                    // library's thread-local state can carry over from one run to the next
                    let (st, viols) = run_isolated(check, &sc, false);
                    let mut a = acc.lock().unwrap();
                    a.runs += 1;
                    a.evals += st.evals;
                    a.steps += st.steps;
                    if st.nontrivial {
                        a.hashes.insert(st.log_hash());
                    }
                    if dump {
                        a.all_hashes.insert(i, hex::encode(st.log_hash()));
                    }
                    for (k, v) in st.faults {
                        *a.faults.entry(k).or_insert(0) += v;
                    }
                    for (k, v) in st.probes {
                        *a.probes.entry(k).or_insert(0) += v;
                    }
                    for (k, v) in st.groups {
                        *a.groups.entry(k).or_insert(0) += v;
                    }
                    if i < 3 {
                        a.samples.insert(i, serde_json::to_value(&sc).unwrap_or(Value::Null));
                    }
                    for v in viols {
                        if let Some(k) = known
                            .iter()
                            .find(|k| k.kind == "open" && k.property == check.id() && k.key == v.key)
                        {
                            let e = a.known_hits.entry(k.key.clone()).or_insert((k.what.clone(), 0));
                            e.1 += 1;
                        } else if a.found.len() < 8 {
                            a.found.push(Found { index: i, scenario: sc.clone(), violation: v });
                        }
                    }
                }
            });
        }
    });
    let a = acc.into_inner().unwrap();
    if let Some(p) = &opts.dump_hashes {
        let mut s = String::new();
        for (i, h) in &a.all_hashes {
            s.push_str(&format!("{} {}\n", i, h));
        }
        std::fs::write(p, s).expect("dump hashes");
    }
    let mut found = a.found;
    found.sort_by_key(|f| f.index);
    BatchResult {
        runs: a.runs,
        evals: a.evals,
        steps: a.steps,
        distinct_nontrivial: a.hashes.len() as u64,
        faults: a.faults,
        probes: a.probes,
        groups: a.groups,
        samples: a.samples.into_values().map(truncate_sample).collect(),
        found,
        known_hits: a.known_hits,
        wall_s: start.elapsed().as_secs_f64(),
        truncated: stop.load(Ordering::Relaxed),
    }
}

fn truncate_sample(v: Value) -> Value {
    let s = v.to_string();
    if s.len() <= 4000 {
        v
    } else {
        json!({ "truncated_scenario_json_prefix": s.chars().take(4000).collect::<String>(), "full_length": s.len() })
    }
}

/// Execute one resolved scenario on a fresh OS thread with fresh per-run state.
pub fn run_isolated<C: Check>(check: &C, sc: &C::Scenario, keep_log: bool) -> (RunStats, Vec<Violation>) {
    std::thread::scope(|scope| {
        let h = std::thread::Builder::new()
            .stack_size(16 << 20)
            .spawn_scoped(scope, || {
                crate::world::install_quiet_panic_hook();
                let mut st = RunStats::default();
                st.keep_log = keep_log;
                crate::free::reset_run_state();
                crate::world::reset_params_cache();
                merlin::tap::stop();
                merlin::tap::reset_ids();
                let v = check.execute(sc, &mut st);
                (st, v)
            })
            .expect("spawn run thread");
        match h.join() {
            Ok(r) => r,
            Err(_) => {
                let mut st = RunStats::default();
                st.event("run thread panicked outside guarded library calls");
                (st, vec![Violation::new("harness:run_panicked", "panic", "the run's thread panicked outside a guarded library call".to_string())])
            },
        }
    })
}

/// Delta-debug a failing scenario while the same invariant keeps failing.
pub fn minimise<C: Check>(check: &C, sc: &C::Scenario, invariant: &str) -> Option<(C::Scenario, Violation, u64)> {
    let exec = |s: &C::Scenario| -> Option<Violation> { run_isolated(check, s, false).1.into_iter().find(|v| v.invariant == invariant) };
    let mut cur = sc.clone();
    // a violation that does not reproduce when its resolved scenario is executed again is not
    // believed: the caller reports it as a harness error, never as a violation
    let mut cur_v = exec(&cur)?;
    let mut execs = 1u64;
    let t0 = Instant::now();
    'outer: loop {
        if execs > 2000 || t0.elapsed().as_secs() > 120 {
            break;
        }
        for cand in check.shrink(&cur) {
            execs += 1;
            if let Some(v) = exec(&cand) {
                cur = cand;
                cur_v = v;
                continue 'outer;
            }
            if execs > 2000 || t0.elapsed().as_secs() > 120 {
                break 'outer;
            }
        }
        break;
    }
    Some((cur, cur_v, execs))
}

#[derive(Serialize, Deserialize)]
pub struct ReplayFile {
    pub property: String,
    pub seed: u64,
    pub index: u64,
    pub invariant: String,
    pub key: String,
    pub detail: String,
    pub minimised: bool,
    pub shrink_executions: u64,
    pub scenario: Value,
}

pub fn write_replay(root: &PathBuf, r: &ReplayFile) -> PathBuf {
    let dir = root.join("replays");
    std::fs::create_dir_all(&dir).expect("replays dir");
    let p = dir.join(format!("{}-{}-{}.json", r.property, r.seed, r.index));
    std::fs::write(&p, serde_json::to_string_pretty(r).unwrap()).expect("write replay");
    p
}

/// Replay a file in this (fresh) process. Returns true if the recorded violation class
/// reproduces.
pub fn replay<C: Check>(check: &C, file: &ReplayFile) -> Option<Violation> {
    crate::world::install_quiet_panic_hook();
    let sc: C::Scenario = serde_json::from_value(file.scenario.clone()).expect("scenario parses");
    let (st, v) = run_isolated(check, &sc, true);
    for l in &st.log {
        println!("  {}", l);
    }
    v.into_iter().find(|v| v.invariant == file.invariant)
}

fn found_is_empty(summary: &Value) -> bool {
    summary["found"].as_array().map(|a| a.is_empty()).unwrap_or(true)
}

/// Run another bpsim binary (e.g. another build profile) as a child and turn its summary into an
/// extra phase.
pub fn child_phase(name: &str, bin: &str, args: &[String], envs: &[(&str, &str)]) -> ExtraPhase {
    let tmp = std::env::temp_dir().join(format!("bpsim-child-{}-{}.json", std::process::id(), name));
    let mut cmd = std::process::Command::new(bin);
    cmd.args(args).arg("--child-json").arg(&tmp);
    for (k, v) in envs {
        cmd.env(k, v);
    }
    let status = cmd.status();
    let mut ph = ExtraPhase { name: name.to_string(), ..Default::default() };
    match status {
        Ok(s) if s.code() == Some(0) || s.code() == Some(1) => match std::fs::read_to_string(&tmp) {
            Ok(txt) => {
                let v: Value = serde_json::from_str(&txt).unwrap_or(Value::Null);
                ph.evaluations = v["evaluations"].as_u64().unwrap_or(0);
                ph.distinct = v["distinct"].as_u64().unwrap_or(0);
                ph.runs = v["runs"].as_u64().unwrap_or(0);
                ph.steps = v["steps"].as_u64().unwrap_or(0);
                ph.faults = serde_json::from_value(v["faults"].clone()).unwrap_or_default();
                ph.probes = serde_json::from_value(v["probes"].clone()).unwrap_or_default();
                ph.groups = serde_json::from_value(v["groups"].clone()).unwrap_or_default();
                if let Some(a) = v["found"].as_array() {
                    for f in a {
                        if let Ok(viol) = serde_json::from_value::<Violation>(f["violation"].clone()) {
                            ph.found.push((viol, f["scenario"].clone()));
                        }
                    }
                }
                ph.info = json!({"runs": v["runs"], "faults": v["faults"], "probes": v["probes"], "known_hits": v["known_hits"], "wall_s": v["wall_s"]});
            },
            Err(e) => ph.error = Some(format!("child summary unreadable: {}", e)),
        },
        Ok(s) => {
            ph.error = Some(format!("child {} exited with {:?}", bin, s.code()));
            ph.info = json!({"abnormal_exit": format!("{:?}", s)});
        },
        Err(e) => ph.error = Some(format!("child {} could not be started: {}", bin, e)),
    }
    let _ = std::fs::remove_file(&tmp);
    ph
}

#[derive(Default)]
pub struct ExtraPhase {
    pub name: String,
    pub evaluations: u64,
    pub distinct: u64,
    pub runs: u64,
    pub steps: u64,
    pub faults: BTreeMap<String, u64>,
    pub probes: BTreeMap<String, u64>,
    pub groups: BTreeMap<String, u64>,
    pub info: Value,
    /// (violation, replay scenario json) found by the phase
    pub found: Vec<(Violation, Value)>,
    /// harness error: phase could not run
    pub error: Option<String>,
}

/// Full driver: seeded batch, minimisation, replay files, evidence, exit code.
pub fn drive<C: Check>(check: &C, opts: &Opts, extra: Vec<ExtraPhase>) -> i32 {
    let t0 = Instant::now();
    println!(
        "bpsim check={} tier={} VERIF_SEED={} jobs={}",
        check.id(),
        opts.tier.name(),
        opts.seed,
        opts.jobs
    );
    let res = run_batch(check, opts);
    if let Some(p) = &opts.child_json {
        let mut seen = BTreeSet::new();
        let mut found = Vec::new();
        for f in &res.found {
            if !seen.insert(f.violation.invariant.clone()) {
                continue;
            }
            match minimise(check, &f.scenario, &f.violation.invariant) {
                Some((min_sc, min_v, _)) => found.push(json!({"violation": min_v, "scenario": serde_json::to_value(&min_sc).unwrap(), "index": f.index})),
                None => {
                    eprintln!("HARNESS-ERROR run {} reported {} but re-executing its scenario did not reproduce it (nondeterminism in the harness)", f.index, f.violation.invariant);
                    return 2;
                },
            }
        }
        let summary = json!({
            "runs": res.runs, "evaluations": res.evals, "distinct": res.distinct_nontrivial, "steps": res.steps,
            "faults": res.faults, "probes": res.probes, "groups": res.groups, "found": found,
            "known_hits": res.known_hits.iter().map(|(k, v)| json!({"key": k, "what": v.0, "n": v.1})).collect::<Vec<_>>(),
            "wall_s": res.wall_s,
        });
        std::fs::write(p, serde_json::to_string(&summary).unwrap()).expect("write child summary");
        return if found_is_empty(&summary) { 0 } else { 1 };
    }
    let mut exit = 0;
    let mut violations = 0u64;
    for (key, (what, n)) in &res.known_hits {
        println!("KNOWN-FINDING: property={} {} [{}] (seen {} times)", check.id(), what, key, n);
    }
    // report at most 3 distinct invariants
    let mut batch_harness_error = false;
    let mut seen_inv = BTreeSet::new();
    for f in &res.found {
        if f.violation.invariant.starts_with("harness:") {
            eprintln!("HARNESS-ERROR run {}: {} ({})", f.index, f.violation.invariant, f.violation.detail);
            batch_harness_error = true;
            break;
        }
        if !seen_inv.insert(f.violation.invariant.clone()) || seen_inv.len() > 3 {
            continue;
        }
        let Some((min_sc, min_v, execs)) = minimise(check, &f.scenario, &f.violation.invariant) else {
            // Not reproducible in THIS process. If the run itself changed state the process keeps (what C18 is
            // about), the scenario still reproduces in a fresh process: decide that with a child, and report the
            // un-minimised scenario as the replay file (replay = a fresh process executing it).
            let rf = ReplayFile {
                property: check.id().to_string(),
                seed: opts.seed,
                index: f.index,
                invariant: f.violation.invariant.clone(),
                key: f.violation.key.clone(),
                detail: f.violation.detail.clone(),
                minimised: false,
                shrink_executions: 0,
                scenario: serde_json::to_value(&f.scenario).unwrap(),
            };
            let p = write_replay(&opts.root, &rf);
            let child = std::env::current_exe().ok().and_then(|exe| {
                std::process::Command::new(exe).arg("replay").arg(&p).stdout(std::process::Stdio::null()).stderr(std::process::Stdio::null()).status().ok()
            });
            if child.and_then(|s| s.code()) == Some(1) {
                violations += 1;
                println!(
                    "violation: invariant={} run={} detail={} (reproduces in a fresh process only: the run leaves state in the process)",
                    f.violation.invariant, f.index, f.violation.detail
                );
                println!("VIOLATION property={} replay={}", check.id(), p.display());
                exit = 1;
                continue;
            }
            if std::env::var("BPSIM_KEEP").is_err() { let _ = std::fs::remove_file(&p); }
            eprintln!("HARNESS-ERROR run {} reported {} but re-executing its scenario did not reproduce it (the result depends on something outside the run: state kept by the process, or nondeterminism in the harness)", f.index, f.violation.invariant);
            batch_harness_error = true;
            continue;
        };
        violations += 1;
        let rf = ReplayFile {
            property: check.id().to_string(),
            seed: opts.seed,
            index: f.index,
            invariant: min_v.invariant.clone(),
            key: min_v.key.clone(),
            detail: min_v.detail.clone(),
            minimised: true,
            shrink_executions: execs,
            scenario: serde_json::to_value(&min_sc).unwrap(),
        };
        let p = write_replay(&opts.root, &rf);
        println!(
            "violation: invariant={} run={} detail={}",
            min_v.invariant, f.index, min_v.detail
        );
        println!("VIOLATION property={} replay={}", check.id(), p.display());
        exit = 1;
    }
    let mut res = res;
    let mut phase_info = Vec::new();
    let mut extra_evals = 0u64;
    let mut extra_distinct = 0u64;
    let mut harness_error = None;
    for (pi, ph) in extra.into_iter().enumerate() {
        extra_evals += ph.evaluations;
        extra_distinct += ph.distinct;
        res.runs += ph.runs;
        res.steps += ph.steps;
        for (k, v) in &ph.faults {
            *res.faults.entry(k.clone()).or_insert(0) += v;
        }
        for (k, v) in &ph.probes {
            *res.probes.entry(k.clone()).or_insert(0) += v;
        }
        for (k, v) in &ph.groups {
            *res.groups.entry(k.clone()).or_insert(0) += v;
        }
        for (n, (v, sc)) in ph.found.iter().enumerate() {
            violations += 1;
            let rf = ReplayFile {
                property: check.id().to_string(),
                seed: opts.seed,
                index: 1_000_000 * (pi as u64 + 1) + n as u64,
                invariant: v.invariant.clone(),
                key: v.key.clone(),
                detail: v.detail.clone(),
                minimised: false,
                shrink_executions: 0,
                scenario: sc.clone(),
            };
            let p = write_replay(&opts.root, &rf);
            println!("violation: phase={} invariant={} detail={}", ph.name, v.invariant, v.detail);
            println!("VIOLATION property={} replay={}", check.id(), p.display());
            exit = 1;
        }
        if let Some(e) = &ph.error {
            harness_error = Some(format!("{}: {}", ph.name, e));
        }
        phase_info.push(json!({"phase": ph.name, "evaluations": ph.evaluations, "distinct": ph.distinct, "info": ph.info}));
    }
    // reach self-check: a probe stuck at zero means the workload must change — harness error
    let mut missing = Vec::new();
    if !res.truncated && opts.check_probes {
        for p in check.required_probes(opts.tier) {
            if res.probes.get(p).copied().unwrap_or(0) == 0 && res.faults.get(p).copied().unwrap_or(0) == 0 {
                missing.push(p.to_string());
            }
        }
    }
    let wall = t0.elapsed().as_secs_f64();
    if opts.write_evidence {
        let ev = json!({
            "property_id": check.id(),
            "tier": opts.tier.name(),
            "seed": opts.seed,
            "level": check.level(),
            "coverage": {
                "evaluations": res.evals + extra_evals,
                "distinct_nontrivial": res.distinct_nontrivial + extra_distinct,
                "rule": check.rule(),
                "samples": res.samples,
                "simulated_runs": res.runs,
                "runs_per_hour": if res.wall_s > 0.0 { (res.runs as f64 / res.wall_s * 3600.0) as u64 } else { 0 },
                "seeds": format!("run i of this check uses stream split(VERIF_SEED={}, \"{}\", i); {} runs in total (including runs executed by child phases)", opts.seed, check.id(), res.runs),
                "simulated_time": format!("{} logical steps (API operations, RNG calls, oracle evaluations); the library has no clock, so there is no simulated wall time", res.steps),
                "logical_steps": res.steps,
                "faults_fired": res.faults,
                "probes": res.probes,
                "groups": res.groups,
                "distinct_measure": "distinct event-log hashes among seeded runs in which at least one fault fired or a non-default scheduler/configuration decision was taken, plus the distinct counts reported by extra phases",
                "extra_phases": phase_info,
                "components": check.components(),
                "batch_truncated_by_wall_cap": res.truncated,
                "missing_required_probes": missing,
            },
            "assumptions": check.assumptions(),
            "wall_s": wall,
            "violations": violations,
        });
        let dir = opts.root.join("evidence");
        std::fs::create_dir_all(&dir).expect("evidence dir");
        std::fs::write(dir.join(format!("{}.json", check.id())), serde_json::to_string_pretty(&ev).unwrap())
            .expect("write evidence");
    }
    println!(
        "done check={} runs={} evaluations={} distinct_nontrivial={} violations={} wall={:.1}s{}",
        check.id(),
        res.runs,
        res.evals + extra_evals,
        res.distinct_nontrivial + extra_distinct,
        violations,
        wall,
        if res.truncated { " (batch truncated by wall cap)" } else { "" }
    );
    if exit == 0 && batch_harness_error {
        return 2;
    }
    if exit == 0 {
        if let Some(e) = harness_error {
            eprintln!("HARNESS-ERROR {}", e);
            return 2;
        }
        if !missing.is_empty() {
            eprintln!("HARNESS-ERROR required probes never hit: {:?}", missing);
            return 2;
        }
    }
    exit
}
