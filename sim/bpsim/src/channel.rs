//! Channel seam (S5): what travels from a prover to a verifier, and the faults a hostile or
//! faulty channel applies to it. A message is delivered by building the statement through the
//! validating constructors and the proof through `from_bytes`, exactly as a remote verifier must.

use curve25519_dalek::scalar::Scalar;
use serde::{Deserialize, Serialize};
use tari_bulletproofs_plus::{
    generators::pedersen_gens::PedersenGens,
    range_proof::{RangeProof, VerifyAction},
    range_statement::RangeStatement,
};

use crate::{
    group::Group,
    simrng::SimRng,
    world::*,
};

/// group order ℓ, little endian
pub const ELL: [u8; 32] = [
    0xed, 0xd3, 0xf5, 0x5c, 0x1a, 0x63, 0x12, 0x58, 0xd6, 0x9c, 0xf7, 0xa2, 0xde, 0xf9, 0xde, 0x14, 0, 0, 0, 0, 0, 0, 0,
    0, 0, 0, 0, 0, 0, 0, 0, 0x10,
];

/// x + ℓ as 32 little-endian bytes (a non-canonical encoding of x; always fits since x < ℓ < 2^253)
pub fn non_canonical(x: &[u8; 32]) -> [u8; 32] {
    let mut out = [0u8; 32];
    let mut carry = 0u16;
    for i in 0..32 {
        let s = u16::from(x[i]) + u16::from(ELL[i]) + carry;
        out[i] = (s & 0xff) as u8;
        carry = s >> 8;
    }
    out
}

#[derive(Clone)]
pub struct Msg<G: Group> {
    pub bits: usize,
    pub cap: usize,
    pub ext: usize,
    /// None = the standard Pedersen generators of the group
    pub pc: Option<PedersenGens<G>>,
    pub commitments: Vec<G>,
    pub promises: Vec<Option<u64>>,
    pub seed: Option<Scalar>,
    pub ctx: Context,
    pub proof: Vec<u8>,
    /// a seed written into the statement's public `seed_nonce` field AFTER construction (every field of
    /// the statement is public, so a verifier can hold an aggregated statement that carries a seed
    /// although the constructor would not build one)
    pub force_seed: Option<Scalar>,
}

pub enum Delivered<G: Group> {
    /// a constructor or the decoder refused (value is the rendered error)
    Refused(String),
    Ready(RangeStatement<G>, RangeProof<G>),
}

impl<G: Group> Msg<G> {
    pub fn honest(cfg: &Config, wit: &WitnessSpec, ctx: &Context, built: &Built<G>, proof: &RangeProof<G>) -> Msg<G> {
        Msg {
            bits: cfg.bits,
            cap: cfg.cap,
            ext: cfg.ext,
            pc: None,
            commitments: built.commitments.clone(),
            promises: wit.promises.clone(),
            seed: wit.seed(),
            ctx: ctx.clone(),
            proof: G::to_bytes(proof),
            force_seed: None,
        }
    }

    /// Build statement and proof the way a remote verifier does. Panics are the caller's to catch.
    pub fn open(&self) -> Delivered<G> {
        let params = match &self.pc {
            None => {
                if !self.bits.is_power_of_two() || self.bits > 64 || !self.cap.is_power_of_two() || !(1..=6).contains(&self.ext) {
                    match G::params(self.bits, self.cap, G::pedersen(self.ext.clamp(1, 6))) {
                        Ok(p) => p,
                        Err(e) => return Delivered::Refused(format!("params: {}", err_class(&e))),
                    }
                } else {
                    std_params::<G>(self.bits, self.cap, self.ext)
                }
            },
            Some(pc) => match G::params(self.bits, self.cap, pc.clone()) {
                Ok(p) => p,
                Err(e) => return Delivered::Refused(format!("params: {}", err_class(&e))),
            },
        };
        let mut st = match G::statement(params, self.commitments.clone(), self.promises.clone(), self.seed) {
            Ok(s) => s,
            Err(e) => return Delivered::Refused(format!("statement: {}", err_class(&e))),
        };
        if let Some(fs) = self.force_seed {
            st.seed_nonce = Some(fs);
        }
        let proof = match G::from_bytes(&self.proof) {
            Ok(p) => p,
            Err(e) => return Delivered::Refused(format!("from_bytes: {}", err_class(&e))),
        };
        Delivered::Ready(st, proof)
    }

    /// Deliver as a singleton; Refused counts as an error value.
    pub fn deliver(&self, action: VerifyAction) -> Result<Result<(), String>, Caught> {
        guarded(|| match self.open() {
            Delivered::Refused(e) => Err(e),
            Delivered::Ready(st, proof) => {
                let mut trs = vec![self.ctx.transcript()];
                match G::verify(&mut trs, std::slice::from_ref(&st), std::slice::from_ref(&proof), action) {
                    Ok(_) => Ok(()),
                    Err(e) => Err(format!("verify: {}", err_class(&e))),
                }
            },
        })
    }
}

// ---- single-element faults -------------------------------------------------------------------

#[derive(Clone, Debug, Serialize, Deserialize, PartialEq, Eq)]
pub enum ScalarRepl {
    PlusOne,
    Negate,
    Zero,
    Random,
    NonCanonical,
}

#[derive(Clone, Debug, Serialize, Deserialize, PartialEq, Eq)]
pub enum PointRepl {
    /// the value generator H (an honest, decodable, unrelated point)
    OtherHonest,
    /// another point element of the same proof
    Sibling,
    Random,
    Identity,
    Undecodable,
}

#[derive(Clone, Debug, Serialize, Deserialize, PartialEq, Eq)]
pub enum PromiseRepl {
    PlusOne,
    MinusOne,
    Toggle,
    TwoPowBits,
    Max,
}

#[derive(Clone, Debug, Serialize, Deserialize, PartialEq, Eq)]
pub enum GenPart {
    PointOnly,
    CompressedOnly,
    Both,
}

#[derive(Clone, Debug, Serialize, Deserialize, PartialEq, Eq)]
pub enum Fault {
    FlipBit { elem: usize, bit: usize },
    ReplaceScalar { elem: usize, with: ScalarRepl },
    ReplacePoint { elem: usize, with: PointRepl },
    DropRound,
    AddRound,
    /// append this many extra rounds (huge round counts: 63/64/65/200)
    AddRounds(usize),
    /// change the extension tag by ±1; `repair` also adds/removes a d1 element so the length fits
    RetagExtension { up: bool, repair: bool },
    Truncate(usize),
    Extend(usize),
    SwapCommitments(usize, usize),
    /// the promises of two commitments exchanged (commitments stay in place)
    SwapPromises(usize, usize),
    ReplaceCommitment { j: usize, with: PointRepl },
    Promise { j: usize, with: PromiseRepl },
    Bits { double: bool },
    GeneratorH(GenPart),
    GeneratorG { k: usize, part: GenPart },
    ContextLabel,
    ContextExtra,
    /// one bit of the ENCODING of a commitment generator handed to the transcript (`k = None`: H)
    GeneratorEncodingBit { k: Option<usize>, bit: usize },
}

impl Fault {
    pub fn kind(&self) -> &'static str {
        match self {
            Fault::FlipBit { .. } => "flip_bit",
            Fault::ReplaceScalar { .. } => "replace_scalar",
            Fault::ReplacePoint { .. } => "replace_point",
            Fault::DropRound => "drop_round",
            Fault::AddRound => "add_round",
            Fault::AddRounds(_) => "add_many_rounds",
            Fault::RetagExtension { .. } => "retag_extension",
            Fault::Truncate(_) => "truncate",
            Fault::Extend(_) => "extend",
            Fault::SwapCommitments(..) => "swap_commitments",
            Fault::SwapPromises(..) => "swap_promises",
            Fault::ReplaceCommitment { .. } => "replace_commitment",
            Fault::Promise { .. } => "promise",
            Fault::Bits { .. } => "bits",
            Fault::GeneratorH(_) => "generator_h",
            Fault::GeneratorG { .. } => "generator_g",
            Fault::ContextLabel => "context_label",
            Fault::ContextExtra => "context_extra",
            Fault::GeneratorEncodingBit { .. } => "generator_encoding_bit",
        }
    }
}

/// Every single-component alteration of `msg` (positions × replacement kinds).
pub fn enumerate_faults<G: Group>(msg: &Msg<G>, rng: &mut SimRng) -> Vec<Fault> {
    let mut v = Vec::new();
    let parts = match ProofParts::parse(&msg.proof) {
        Some(p) => p,
        None => return v,
    };
    let n = parts.n_elements();
    for e in 0..n {
        if parts.element_is_scalar(e) {
            for w in [ScalarRepl::PlusOne, ScalarRepl::Negate, ScalarRepl::Zero, ScalarRepl::Random, ScalarRepl::NonCanonical] {
                v.push(Fault::ReplaceScalar { elem: e, with: w });
            }
        } else {
            for w in [PointRepl::OtherHonest, PointRepl::Sibling, PointRepl::Random, PointRepl::Identity, PointRepl::Undecodable] {
                v.push(Fault::ReplacePoint { elem: e, with: w });
            }
        }
        v.push(Fault::FlipBit { elem: e, bit: rng.usize_below(256) });
        v.push(Fault::FlipBit { elem: e, bit: 0 });
    }
    v.push(Fault::DropRound);
    v.push(Fault::AddRound);
    if let Some(r) = ProofParts::parse(&msg.proof).map(|p| p.lr.len()) {
        for target in [63usize, 64, 65, 200] {
            if target > r {
                v.push(Fault::AddRounds(target - r));
            }
        }
    }
    for up in [true, false] {
        for repair in [true, false] {
            v.push(Fault::RetagExtension { up, repair });
        }
    }
    for t in [1usize, 31, 32, 33] {
        v.push(Fault::Truncate(t));
        v.push(Fault::Extend(t));
    }
    let m = msg.commitments.len();
    for j in 0..m {
        for w in [PointRepl::OtherHonest, PointRepl::Sibling, PointRepl::Random, PointRepl::Identity] {
            v.push(Fault::ReplaceCommitment { j, with: w });
        }
        for w in [PromiseRepl::PlusOne, PromiseRepl::MinusOne, PromiseRepl::Toggle, PromiseRepl::TwoPowBits, PromiseRepl::Max] {
            v.push(Fault::Promise { j, with: w });
        }
        for i in 0..j {
            v.push(Fault::SwapCommitments(i, j));
            v.push(Fault::SwapPromises(i, j));
        }
    }
    v.push(Fault::Bits { double: true });
    v.push(Fault::Bits { double: false });
    for part in [GenPart::PointOnly, GenPart::CompressedOnly, GenPart::Both] {
        v.push(Fault::GeneratorH(part.clone()));
        for k in 0..msg.ext {
            v.push(Fault::GeneratorG { k, part: part.clone() });
        }
    }
    v.push(Fault::ContextLabel);
    v.push(Fault::ContextExtra);
    v
}

fn repl_point<G: Group>(msg: &Msg<G>, parts: &ProofParts, cur: &[u8; 32], with: &PointRepl, rng: &mut SimRng) -> [u8; 32] {
    match with {
        PointRepl::OtherHonest => {
            let pc = msg.pc.clone().unwrap_or_else(|| G::pedersen(msg.ext));
            G::enc(pc.h_base())
        },
        PointRepl::Sibling => {
            // first point element of the proof that differs from the current one
            for e in 0..parts.n_elements() {
                if !parts.element_is_scalar(e) && &parts.element(e) != cur {
                    return parts.element(e);
                }
            }
            *cur
        },
        PointRepl::Random => G::enc(&G::random_point(rng)),
        PointRepl::Identity => [0u8; 32],
        PointRepl::Undecodable => G::undecodable(rng),
    }
}

/// Apply one fault. Returns None when the result is not an alteration (equal to the original,
/// or the excluded None -> Some(0)) or the fault does not apply to this message.
pub fn apply_fault<G: Group>(msg: &Msg<G>, f: &Fault, rng: &mut SimRng) -> Option<Msg<G>> {
    let mut out = msg.clone();
    let parts = ProofParts::parse(&msg.proof);
    match f {
        Fault::FlipBit { elem, bit } => {
            let mut p = parts?;
            if *elem >= p.n_elements() {
                return None;
            }
            p.element_mut(*elem)[bit / 8] ^= 1 << (bit % 8);
            out.proof = p.to_bytes();
        },
        Fault::ReplaceScalar { elem, with } => {
            let mut p = parts?;
            if *elem >= p.n_elements() || !p.element_is_scalar(*elem) {
                return None;
            }
            let cur = p.element(*elem);
            let x = ProofParts::scalar(&cur)?;
            let new = match with {
                ScalarRepl::PlusOne => (x + Scalar::ONE).to_bytes(),
                ScalarRepl::Negate => (-x).to_bytes(),
                ScalarRepl::Zero => [0u8; 32],
                ScalarRepl::Random => rng.scalar().to_bytes(),
                ScalarRepl::NonCanonical => non_canonical(&cur),
            };
            if new == cur {
                return None;
            }
            *p.element_mut(*elem) = new;
            out.proof = p.to_bytes();
        },
        Fault::ReplacePoint { elem, with } => {
            let mut p = parts?;
            if *elem >= p.n_elements() || p.element_is_scalar(*elem) {
                return None;
            }
            let cur = p.element(*elem);
            let new = repl_point(msg, &p, &cur, with, rng);
            if new == cur {
                return None;
            }
            *p.element_mut(*elem) = new;
            out.proof = p.to_bytes();
        },
        Fault::DropRound => {
            let mut p = parts?;
            p.lr.pop()?;
            out.proof = p.to_bytes();
        },
        Fault::AddRounds(n) => {
            let mut p = parts?;
            for _ in 0..*n {
                p.lr.push((G::enc(&G::random_point(rng)), G::enc(&G::random_point(rng))));
            }
            out.proof = p.to_bytes();
        },
        Fault::AddRound => {
            let mut p = parts?;
            p.lr.push((G::enc(&G::random_point(rng)), G::enc(&G::random_point(rng))));
            out.proof = p.to_bytes();
        },
        Fault::RetagExtension { up, repair } => {
            let mut p = parts?;
            let new_tag = if *up { p.ext_tag.checked_add(1)? } else { p.ext_tag.checked_sub(1)? };
            p.ext_tag = new_tag;
            if *repair {
                if *up {
                    p.d1.push(rng.scalar().to_bytes());
                } else {
                    p.d1.pop()?;
                }
            }
            // `to_bytes` writes the tag and the elements as they are: without repair the layout
            // simply shifts, which is what a corrupted tag byte does
            out.proof = p.to_bytes();
        },
        Fault::Truncate(n) => {
            if *n == 0 || *n > out.proof.len() {
                return None;
            }
            let l = out.proof.len() - n;
            out.proof.truncate(l);
        },
        Fault::Extend(n) => {
            if *n == 0 {
                return None;
            }
            let mut extra = vec![0u8; *n];
            rng.fill(&mut extra);
            out.proof.extend_from_slice(&extra);
        },
        Fault::SwapCommitments(i, j) => {
            if *i >= msg.commitments.len() || *j >= msg.commitments.len() || msg.commitments[*i] == msg.commitments[*j] {
                return None;
            }
            out.commitments.swap(*i, *j);
        },
        Fault::SwapPromises(i, j) => {
            if *i >= msg.promises.len() || *j >= msg.promises.len() || msg.promises[*i].unwrap_or(0) == msg.promises[*j].unwrap_or(0) {
                return None;
            }
            out.promises.swap(*i, *j);
        },
        Fault::ReplaceCommitment { j, with } => {
            if *j >= msg.commitments.len() {
                return None;
            }
            let pc = msg.pc.clone().unwrap_or_else(|| G::pedersen(msg.ext));
            let new = match with {
                PointRepl::OtherHonest => G::sum(&msg.commitments[*j], pc.h_base()),
                PointRepl::Sibling => {
                    let o = msg.commitments.iter().find(|c| **c != msg.commitments[*j])?;
                    o.clone()
                },
                PointRepl::Random => G::random_point(rng),
                PointRepl::Identity => G::identity(),
                PointRepl::Undecodable => return None,
            };
            if new == msg.commitments[*j] {
                return None;
            }
            out.commitments[*j] = new;
        },
        Fault::Promise { j, with } => {
            if *j >= msg.promises.len() {
                return None;
            }
            let cur = msg.promises[*j];
            let curv = cur.unwrap_or(0);
            let new = match with {
                PromiseRepl::PlusOne => Some(curv.checked_add(1)?),
                PromiseRepl::MinusOne => Some(curv.checked_sub(1)?),
                PromiseRepl::Toggle => match cur {
                    Some(0) | None => Some(1 + rng.below(3)),
                    Some(_) => None,
                },
                PromiseRepl::TwoPowBits => {
                    if msg.bits >= 64 {
                        return None;
                    }
                    Some(1u64 << msg.bits)
                },
                PromiseRepl::Max => Some(u64::MAX),
            };
            // an absent promise and a zero promise are the same statement
            if new.unwrap_or(0) == curv {
                return None;
            }
            out.promises[*j] = new;
        },
        Fault::Bits { double } => {
            let nb = if *double { msg.bits * 2 } else { msg.bits / 2 };
            if nb == 0 || nb > 64 {
                return None;
            }
            out.bits = nb;
        },
        Fault::GeneratorH(part) => {
            let mut pc = msg.pc.clone().unwrap_or_else(|| G::pedersen(msg.ext));
            let np = G::random_point(rng);
            match part {
                GenPart::PointOnly => pc.h_base = np,
                GenPart::CompressedOnly => pc.h_base_compressed = np.compress(),
                GenPart::Both => {
                    pc.h_base_compressed = np.compress();
                    pc.h_base = np;
                },
            }
            out.pc = Some(pc);
        },
        Fault::GeneratorG { k, part } => {
            let mut pc = msg.pc.clone().unwrap_or_else(|| G::pedersen(msg.ext));
            if *k >= pc.g_base_vec.len() {
                return None;
            }
            let np = G::random_point(rng);
            match part {
                GenPart::PointOnly => pc.g_base_vec[*k] = np,
                GenPart::CompressedOnly => pc.g_base_compressed_vec[*k] = np.compress(),
                GenPart::Both => {
                    pc.g_base_compressed_vec[*k] = np.compress();
                    pc.g_base_vec[*k] = np;
                },
            }
            out.pc = Some(pc);
        },
        Fault::GeneratorEncodingBit { k, bit } => {
            let mut pc = msg.pc.clone().unwrap_or_else(|| G::pedersen(msg.ext));
            match k {
                None => {
                    let mut b = G::c_bytes(&pc.h_base_compressed);
                    b[bit / 8 % 32] ^= 1 << (bit % 8);
                    pc.h_base_compressed = G::c_from(b);
                },
                Some(k) => {
                    if *k >= pc.g_base_compressed_vec.len() {
                        return None;
                    }
                    let mut b = G::c_bytes(&pc.g_base_compressed_vec[*k]);
                    b[bit / 8 % 32] ^= 1 << (bit % 8);
                    pc.g_base_compressed_vec[*k] = G::c_from(b);
                },
            }
            out.pc = Some(pc);
        },
        Fault::ContextLabel => {
            let mut l = rng.usize_below(LABELS.len());
            if LABELS[l] == LABELS[msg.ctx.label % LABELS.len()] {
                l = (l + 1) % LABELS.len();
            }
            out.ctx.label = l;
        },
        Fault::ContextExtra => {
            let mut e = msg.ctx.extra.clone().unwrap_or_default();
            e.push(rng.next_u64() as u8);
            out.ctx.extra = Some(e);
        },
    }
    Some(out)
}
