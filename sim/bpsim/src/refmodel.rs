//! Reference model for C02: the Bulletproofs+ verification relation evaluated the slow way,
//! written from the paper (Chung, Han, Ju, Kim, Kwak: "Bulletproofs+", zk-WIP argument and the
//! aggregated range proof) and Tari RFC-0181, sharing no code with /repo.
//!
//! Notation (Tari's naming): value generator H, blinding generators G_k (k < ext), vector
//! generators Gi_i, Hi_i (i < mn, mn = bits * m), commitments V_j, promises p_j.
//!
//!   Â  = A - z·ΣGi_i + Σ (d_i·y^(mn-i) + z)·Hi_i + y^(mn+1)·Σ_j z^(2(j+1))·(V_j - p_j·H) + ζ·H
//!   d_(j·bits+i) = z^(2(j+1))·2^i
//!   ζ  = z·Σ_{i=1..mn} y^i - z·y^(mn+1)·Σ d_i - z²·Σ_{i=1..mn} y^i
//!   per round (n̂ = n/2):  g' = e⁻¹·g_lo + (e·y^(-n̂))·g_hi ,  h' = e·h_lo + e⁻¹·h_hi ,
//!                          P' = e²·L + P + e⁻²·R
//!   final:  e²·P + e·A1 + B  =  (r1·e)·g_0 + (s1·e)·h_0 + (r1·y·s1)·H + Σ_k d1_k·G_k
//!
//! `paper_residual` returns RHS - LHS of the final equation (identity iff the proof satisfies the
//! relation at the given challenges), or a shape rejection.

use curve25519_dalek::scalar::Scalar;

use crate::{group::Group, world::ProofParts};

pub struct RefInput<'a, G: Group> {
    pub bits: usize,
    pub ext: usize,
    pub h: &'a G,
    pub h_enc: [u8; 32],
    pub g: &'a [G],
    pub g_enc: Vec<[u8; 32]>,
    /// all vector generators the statement's parameters expose (at least bits*m are needed)
    pub gi: Vec<G>,
    pub hi: Vec<G>,
    pub commitments: &'a [G],
    pub promises: &'a [Option<u64>],
    pub parts: &'a ProofParts,
    /// challenges the verifier drew, by ordinal (y, z, e_0.., e)
    pub challenges: &'a [Scalar],
}

pub enum RefVerdict<G> {
    /// the proof or statement is refused without evaluating the relation
    ShapeReject(String),
    /// the reference finds no shape defect, but the verifier under observation stopped before it had
    /// drawn all challenges, so the relation cannot be evaluated at "its" challenges
    NoChallenges(usize),
    /// RHS - LHS of the final check
    Residual(G),
}

fn pow(b: &Scalar, mut e: u64) -> Scalar {
    let mut base = *b;
    let mut acc = Scalar::ONE;
    while e > 0 {
        if e & 1 == 1 {
            acc *= base;
        }
        base *= base;
        e >>= 1;
    }
    acc
}

pub fn paper_residual<G: Group>(inp: &RefInput<G>) -> RefVerdict<G> {
    let m = inp.commitments.len();
    let mn = inp.bits * m;
    let parts = inp.parts;
    let rounds = parts.lr.len();
    // ---- shape ----
    if parts.d1.len() != inp.ext || parts.ext_tag as usize != inp.ext {
        return RefVerdict::ShapeReject("extension degree of the proof differs from the statement's".into());
    }
    if rounds >= usize::BITS as usize || (1usize << rounds) != mn {
        return RefVerdict::ShapeReject("number of rounds is not log2(bits * m)".into());
    }
    for p in inp.promises.iter().flatten() {
        if inp.bits < 64 && (*p >> inp.bits) > 0 {
            return RefVerdict::ShapeReject("promise does not fit the bit length".into());
        }
    }
    if inp.promises.len() != m {
        return RefVerdict::ShapeReject("promise count".into());
    }
    let zero = [0u8; 32];
    if inp.h_enc == zero || inp.g_enc.iter().any(|g| *g == zero) {
        return RefVerdict::ShapeReject("identity generator".into());
    }
    let dec = |b: &[u8; 32], what: &str| -> Result<G, String> {
        if *b == zero {
            return Err(format!("{} is the identity", what));
        }
        G::dec(b).ok_or_else(|| format!("{} does not decode", what))
    };
    let a = match dec(&parts.a, "A") {
        Ok(p) => p,
        Err(e) => return RefVerdict::ShapeReject(e),
    };
    let a1 = match dec(&parts.a1, "A1") {
        Ok(p) => p,
        Err(e) => return RefVerdict::ShapeReject(e),
    };
    let b = match dec(&parts.b, "B") {
        Ok(p) => p,
        Err(e) => return RefVerdict::ShapeReject(e),
    };
    let mut ls = Vec::new();
    let mut rs = Vec::new();
    for (l, r) in &parts.lr {
        match (dec(l, "L"), dec(r, "R")) {
            (Ok(l), Ok(r)) => {
                ls.push(l);
                rs.push(r);
            },
            (Err(e), _) | (_, Err(e)) => return RefVerdict::ShapeReject(e),
        }
    }
    let sc = |b: &[u8; 32]| ProofParts::scalar(b);
    let (Some(r1), Some(s1)) = (sc(&parts.r1), sc(&parts.s1)) else {
        return RefVerdict::ShapeReject("non-canonical scalar".into());
    };
    let mut d1 = Vec::new();
    for d in &parts.d1 {
        match sc(d) {
            Some(x) => d1.push(x),
            None => return RefVerdict::ShapeReject("non-canonical scalar".into()),
        }
    }
    if inp.challenges.len() != rounds + 3 {
        return RefVerdict::NoChallenges(inp.challenges.len());
    }
    if inp.gi.len() < mn || inp.hi.len() < mn {
        return RefVerdict::ShapeReject("not enough vector generators".into());
    }
    let y = inp.challenges[0];
    let z = inp.challenges[1];
    let es = &inp.challenges[2..2 + rounds];
    let e = inp.challenges[2 + rounds];

    // ---- Â ----
    let z2 = z * z;
    let mut d = vec![Scalar::ZERO; mn];
    for j in 0..m {
        let zj = pow(&z2, (j + 1) as u64);
        let mut two_i = Scalar::ONE;
        for i in 0..inp.bits {
            d[j * inp.bits + i] = zj * two_i;
            two_i += two_i;
        }
    }
    let mut acc = a.clone();
    let minus_z = -z;
    for i in 0..mn {
        acc = G::sum(&acc, &G::scale(&inp.gi[i], &minus_z));
        let hexp = d[i] * pow(&y, (mn - i) as u64) + z;
        acc = G::sum(&acc, &G::scale(&inp.hi[i], &hexp));
    }
    let y_mn1 = pow(&y, (mn + 1) as u64);
    for j in 0..m {
        let zj = pow(&z2, (j + 1) as u64);
        let mut v = inp.commitments[j].clone();
        if let Some(p) = inp.promises[j] {
            v = G::sum(&v, &G::scale(inp.h, &(-Scalar::from(p))));
        }
        acc = G::sum(&acc, &G::scale(&v, &(y_mn1 * zj)));
    }
    let mut sum_y = Scalar::ZERO;
    for i in 1..=mn {
        sum_y += pow(&y, i as u64);
    }
    let mut sum_d = Scalar::ZERO;
    for x in &d {
        sum_d += x;
    }
    let zeta = z * sum_y - z * y_mn1 * sum_d - z2 * sum_y;
    acc = G::sum(&acc, &G::scale(inp.h, &zeta));

    // ---- folding by definition ----
    let mut g: Vec<G> = inp.gi[..mn].to_vec();
    let mut h: Vec<G> = inp.hi[..mn].to_vec();
    let mut p = acc;
    let mut n = mn;
    for j in 0..rounds {
        n /= 2;
        let ej = es[j];
        let ej_inv = ej.invert();
        let y_n_inv = pow(&y, n as u64).invert();
        let mut g2 = Vec::with_capacity(n);
        let mut h2 = Vec::with_capacity(n);
        for i in 0..n {
            g2.push(G::sum(&G::scale(&g[i], &ej_inv), &G::scale(&g[n + i], &(ej * y_n_inv))));
            h2.push(G::sum(&G::scale(&h[i], &ej), &G::scale(&h[n + i], &ej_inv)));
        }
        g = g2;
        h = h2;
        p = G::sum(&G::sum(&G::scale(&ls[j], &(ej * ej)), &p), &G::scale(&rs[j], &(ej_inv * ej_inv)));
    }
    // ---- final check ----
    let lhs = G::sum(&G::sum(&G::scale(&p, &(e * e)), &G::scale(&a1, &e)), &b);
    let mut rhs = G::sum(&G::scale(&g[0], &(r1 * e)), &G::scale(&h[0], &(s1 * e)));
    rhs = G::sum(&rhs, &G::scale(inp.h, &(r1 * y * s1)));
    for (k, dk) in d1.iter().enumerate() {
        rhs = G::sum(&rhs, &G::scale(&inp.g[k], dk));
    }
    RefVerdict::Residual(G::sum(&rhs, &G::scale(&lhs, &(-Scalar::ONE))))
}
