//! Allocator seam (S4): `System` behind a wrapper that
//!   * counts live / peak / total bytes per thread (C16),
//!   * when armed on this thread, scans every block handed to `dealloc` (and the old block of a
//!     `realloc`) for registered secret byte patterns (C20),
//!   * always overwrites a block before returning it to `System`, so stale bytes of the harness's
//!     own buffers can never reappear inside a library block and produce a false hit.
//!
//! All state is thread-local and const-initialised (no lazy initialisation, no destructor), so it
//! is usable from inside the allocator; a re-entrancy flag makes hook-internal allocation (for the
//! backtrace of a hit) pass straight through.

use std::{
    alloc::{GlobalAlloc, Layout, System},
    cell::{Cell, RefCell},
};

pub struct SimAlloc;

pub const MAX_PATTERNS: usize = 96;

#[derive(Clone, Copy)]
pub struct Pattern {
    pub len: u8,
    pub bytes: [u8; 32],
    pub kind: u8,
}

const EMPTY: Pattern = Pattern { len: 0, bytes: [0u8; 32], kind: 0 };

#[derive(Clone, Debug)]
pub struct Hit {
    pub kind: u8,
    pub pattern_index: usize,
    pub block_size: usize,
    pub via_realloc: bool,
    pub frames: Vec<String>,
}

pub const MAX_LONG: usize = 8;
pub const LONG_BYTES: usize = 256;

#[derive(Clone, Copy)]
pub struct LongPattern {
    pub len: usize,
    pub bytes: [u8; LONG_BYTES],
    pub kind: u8,
}

const EMPTY_LONG: LongPattern = LongPattern { len: 0, bytes: [0u8; LONG_BYTES], kind: 0 };

thread_local! {
    static NLONG: Cell<usize> = const { Cell::new(0) };
    static LONGS: RefCell<[LongPattern; MAX_LONG]> = const { RefCell::new([EMPTY_LONG; MAX_LONG]) };
    static IN_HOOK: Cell<bool> = const { Cell::new(false) };
    static ARMED: Cell<bool> = const { Cell::new(false) };
    static NPAT: Cell<usize> = const { Cell::new(0) };
    static PATS: RefCell<[Pattern; MAX_PATTERNS]> = const { RefCell::new([EMPTY; MAX_PATTERNS]) };
    static HITS: RefCell<Vec<Hit>> = const { RefCell::new(Vec::new()) };
    static LIVE: Cell<usize> = const { Cell::new(0) };
    static PEAK: Cell<usize> = const { Cell::new(0) };
    static TOTAL: Cell<usize> = const { Cell::new(0) };
    static NALLOC: Cell<usize> = const { Cell::new(0) };
    static FREED_BLOCKS: Cell<usize> = const { Cell::new(0) };
    static SCANNED_BYTES: Cell<usize> = const { Cell::new(0) };
}

fn on_alloc(size: usize) {
    let _ = LIVE.try_with(|l| {
        let v = l.get() + size;
        l.set(v);
        let _ = PEAK.try_with(|p| {
            if v > p.get() {
                p.set(v)
            }
        });
    });
    let _ = TOTAL.try_with(|t| t.set(t.get() + size));
    let _ = NALLOC.try_with(|t| t.set(t.get() + 1));
}

fn on_free(size: usize) {
    let _ = LIVE.try_with(|l| l.set(l.get().saturating_sub(size)));
}

fn find(hay: &[u8], needle: &[u8]) -> bool {
    if needle.is_empty() || hay.len() < needle.len() {
        return false;
    }
    let first = needle[0];
    let last = hay.len() - needle.len();
    let mut i = 0;
    while i <= last {
        if hay[i] == first && &hay[i..i + needle.len()] == needle {
            return true;
        }
        i += 1;
    }
    false
}

/// Overwrite a block that is about to be freed. Plain `write_bytes` before `dealloc` is a dead
/// store the optimiser removes, so the writes are volatile (word-wise where aligned).
#[inline(never)]
unsafe fn wipe(ptr: *mut u8, size: usize) {
    let mut i = 0usize;
    while i < size && (ptr.add(i) as usize) % 8 != 0 {
        std::ptr::write_volatile(ptr.add(i), 0xDD);
        i += 1;
    }
    while i + 8 <= size {
        std::ptr::write_volatile(ptr.add(i) as *mut u64, 0xDDDD_DDDD_DDDD_DDDD);
        i += 8;
    }
    while i < size {
        std::ptr::write_volatile(ptr.add(i), 0xDD);
        i += 1;
    }
    std::sync::atomic::compiler_fence(std::sync::atomic::Ordering::SeqCst);
}

unsafe fn scan(ptr: *mut u8, size: usize, via_realloc: bool) {
    let armed = ARMED.try_with(|a| a.get()).unwrap_or(false);
    if !armed || size < 8 {
        return;
    }
    let in_hook = IN_HOOK.try_with(|h| h.get()).unwrap_or(true);
    if in_hook {
        return;
    }
    let _ = IN_HOOK.try_with(|h| h.set(true));
    let block = std::slice::from_raw_parts(ptr, size);
    let n = NPAT.try_with(|n| n.get()).unwrap_or(0);
    let _ = FREED_BLOCKS.try_with(|c| c.set(c.get() + 1));
    let _ = SCANNED_BYTES.try_with(|c| c.set(c.get() + size));
    let mut hit: Option<(usize, u8)> = None;
    let _ = PATS.try_with(|p| {
        if let Ok(p) = p.try_borrow() {
            for (i, pat) in p.iter().take(n).enumerate() {
                if find(block, &pat.bytes[..pat.len as usize]) {
                    hit = Some((i, pat.kind));
                    break;
                }
            }
        }
    });
    if hit.is_none() {
        let nl = NLONG.try_with(|n| n.get()).unwrap_or(0);
        let _ = LONGS.try_with(|p| {
            if let Ok(p) = p.try_borrow() {
                for (i, pat) in p.iter().take(nl).enumerate() {
                    if find(block, &pat.bytes[..pat.len]) {
                        hit = Some((1000 + i, pat.kind));
                        break;
                    }
                }
            }
        });
    }
    if let Some((idx, kind)) = hit {
        let bt = std::backtrace::Backtrace::force_capture().to_string();
        let frames: Vec<String> = bt
            .lines()
            .map(|l| l.trim().to_string())
            .filter(|l| !l.is_empty())
            .collect();
        let _ = HITS.try_with(|h| {
            if let Ok(mut h) = h.try_borrow_mut() {
                if h.len() < 4096 {
                    h.push(Hit { kind, pattern_index: idx, block_size: size, via_realloc, frames });
                }
            }
        });
    }
    let _ = IN_HOOK.try_with(|h| h.set(false));
}

unsafe impl GlobalAlloc for SimAlloc {
    unsafe fn alloc(&self, layout: Layout) -> *mut u8 {
        let p = System.alloc(layout);
        if !p.is_null() {
            on_alloc(layout.size());
        }
        p
    }

    unsafe fn alloc_zeroed(&self, layout: Layout) -> *mut u8 {
        let p = System.alloc_zeroed(layout);
        if !p.is_null() {
            on_alloc(layout.size());
        }
        p
    }

    unsafe fn dealloc(&self, ptr: *mut u8, layout: Layout) {
        scan(ptr, layout.size(), false);
        wipe(ptr, layout.size());
        on_free(layout.size());
        System.dealloc(ptr, layout);
    }

    unsafe fn realloc(&self, ptr: *mut u8, layout: Layout, new_size: usize) -> *mut u8 {
        // alloc-copy-free so that the old block is seen (and wiped) like any other freed block
        let new_layout = Layout::from_size_align_unchecked(new_size, layout.align());
        let np = System.alloc(new_layout);
        if np.is_null() {
            return np;
        }
        on_alloc(new_size);
        std::ptr::copy_nonoverlapping(ptr, np, layout.size().min(new_size));
        scan(ptr, layout.size(), true);
        wipe(ptr, layout.size());
        on_free(layout.size());
        System.dealloc(ptr, layout);
        np
    }
}

// ---- control surface (harness side) ----------------------------------------------------------

/// Register a long byte image (up to 256 bytes), e.g. the scalar image of a bit decomposition.
pub fn register_long(bytes: &[u8], kind: u8) -> bool {
    assert!(bytes.len() >= 64 && bytes.len() <= LONG_BYTES);
    let n = NLONG.with(|n| n.get());
    if n >= MAX_LONG {
        return false;
    }
    LONGS.with(|p| {
        let mut p = p.borrow_mut();
        let mut b = [0u8; LONG_BYTES];
        b[..bytes.len()].copy_from_slice(bytes);
        p[n] = LongPattern { len: bytes.len(), bytes: b, kind };
    });
    NLONG.with(|c| c.set(n + 1));
    true
}

pub fn clear_patterns() {
    NLONG.with(|n| n.set(0));
    NPAT.with(|n| n.set(0));
    HITS.with(|h| h.borrow_mut().clear());
}

/// Register a secret byte image (8..=32 bytes). Returns false if the table is full.
pub fn register(bytes: &[u8], kind: u8) -> bool {
    assert!(bytes.len() >= 8 && bytes.len() <= 32);
    let n = NPAT.with(|n| n.get());
    if n >= MAX_PATTERNS {
        return false;
    }
    PATS.with(|p| {
        let mut p = p.borrow_mut();
        let mut b = [0u8; 32];
        b[..bytes.len()].copy_from_slice(bytes);
        p[n] = Pattern { len: bytes.len() as u8, bytes: b, kind };
    });
    NPAT.with(|c| c.set(n + 1));
    true
}

pub fn arm() {
    FREED_BLOCKS.with(|c| c.set(0));
    SCANNED_BYTES.with(|c| c.set(0));
    ARMED.with(|a| a.set(true));
}

pub fn disarm() -> (usize, usize) {
    ARMED.with(|a| a.set(false));
    (FREED_BLOCKS.with(|c| c.get()), SCANNED_BYTES.with(|c| c.get()))
}

pub fn take_hits() -> Vec<Hit> {
    IN_HOOK.with(|h| h.set(true));
    let v = HITS.with(|h| std::mem::take(&mut *h.borrow_mut()));
    IN_HOOK.with(|h| h.set(false));
    v
}

#[derive(Clone, Copy, Debug, Default)]
pub struct Usage {
    pub live: usize,
    pub peak: usize,
    pub total: usize,
    pub allocs: usize,
}

/// Start a measurement window on this thread: peak is reset to the current live bytes.
pub fn window_start() -> Usage {
    let live = LIVE.with(|l| l.get());
    PEAK.with(|p| p.set(live));
    TOTAL.with(|t| t.set(0));
    NALLOC.with(|t| t.set(0));
    Usage { live, peak: live, total: 0, allocs: 0 }
}

pub fn window_read() -> Usage {
    Usage {
        live: LIVE.with(|l| l.get()),
        peak: PEAK.with(|p| p.get()),
        total: TOTAL.with(|t| t.get()),
        allocs: NALLOC.with(|t| t.get()),
    }
}
