//! Group seam: `FreePoint`, the simulator-owned stand-in for the curve.
//!
//! A `FreePoint` is a finitely supported vector over the scalar field indexed by 64-bit basis ids
//! (the free module on the set of "hash-to-group outputs"). It implements every trait the library
//! demands of its point type, so the unmodified prover and verifier run over it. Handles
//! (`FreeCompressed`) are opaque 32-byte content hashes to the library and transparent to the
//! simulator: generic-group model, made executable.
//!
//! Per-run state (interning table, MSM log, work counter) is thread-local: a run executes on one
//! thread and calls `reset_run_state()` first, so runs never share mutable state.

use std::{
    borrow::Borrow,
    cell::RefCell,
    collections::{BTreeMap, HashMap},
    ops::{Add, AddAssign, Mul},
};

use blake2::{digest::consts::U32, Blake2b, Digest};
use curve25519_dalek::{
    scalar::Scalar,
    traits::{Identity, MultiscalarMul, VartimeMultiscalarMul, VartimePrecomputedMultiscalarMul},
};
use subtle::{Choice, ConstantTimeEq};
use tari_bulletproofs_plus::{
    protocols::curve_point_protocol::CurvePointProtocol,
    traits::{Compressable, Decompressable, FixedBytesRepr, FromUniformBytes, Precomputable},
};

type Blake2b256 = Blake2b<U32>;

#[derive(Clone, PartialEq, Eq, Debug, Default)]
pub struct FreePoint(pub BTreeMap<u64, Scalar>);

#[derive(Clone, Copy, PartialEq, Eq, Debug, Hash)]
pub struct FreeCompressed(pub [u8; 32]);

#[derive(Clone, Debug)]
pub struct MsmEntry {
    pub table_len: usize,
    pub static_scalars: Vec<Scalar>,
    pub dynamic: Vec<(Scalar, FreePoint)>,
    pub result: FreePoint,
}

#[derive(Default)]
pub struct RunState {
    intern: HashMap<[u8; 32], FreePoint>,
    pub msm_log: Vec<MsmEntry>,
    pub msm_log_on: bool,
    /// scalar·point products performed (deterministic stand-in for time)
    pub work: u64,
    pub compressions: u64,
}

thread_local! {
    static STATE: RefCell<RunState> = RefCell::new(RunState::default());
}

pub fn reset_run_state() {
    STATE.with(|s| *s.borrow_mut() = RunState::default());
}

pub fn msm_log_enable(on: bool) {
    STATE.with(|s| s.borrow_mut().msm_log_on = on);
}

pub fn take_msm_log() -> Vec<MsmEntry> {
    STATE.with(|s| std::mem::take(&mut s.borrow_mut().msm_log))
}

pub fn work() -> u64 {
    STATE.with(|s| s.borrow().work)
}

pub fn reset_work() {
    STATE.with(|s| s.borrow_mut().work = 0);
}

fn add_work(n: u64) {
    STATE.with(|s| s.borrow_mut().work += n);
}

impl FreePoint {
    pub fn basis(id: u64) -> Self {
        let mut m = BTreeMap::new();
        m.insert(id, Scalar::ONE);
        FreePoint(m)
    }

    pub fn zero() -> Self {
        FreePoint(BTreeMap::new())
    }

    pub fn is_zero(&self) -> bool {
        self.0.is_empty()
    }

    pub fn coeff(&self, id: u64) -> Scalar {
        self.0.get(&id).copied().unwrap_or(Scalar::ZERO)
    }

    /// If this point is exactly one basis element (coefficient one), its id.
    pub fn as_basis(&self) -> Option<u64> {
        if self.0.len() == 1 {
            let (id, c) = self.0.iter().next().unwrap();
            if *c == Scalar::ONE {
                return Some(*id);
            }
        }
        None
    }

    pub fn add_scaled(&mut self, s: &Scalar, p: &FreePoint) {
        if *s == Scalar::ZERO {
            return;
        }
        for (id, c) in &p.0 {
            let v = s * c;
            let e = self.0.entry(*id).or_insert(Scalar::ZERO);
            *e += v;
            if *e == Scalar::ZERO {
                self.0.remove(id);
            }
        }
    }

    pub fn scaled(&self, s: &Scalar) -> FreePoint {
        let mut r = FreePoint::zero();
        r.add_scaled(s, self);
        r
    }

    pub fn canonical_bytes(&self) -> Vec<u8> {
        let mut v = Vec::with_capacity(self.0.len() * 40);
        for (id, c) in &self.0 {
            v.extend_from_slice(&id.to_le_bytes());
            v.extend_from_slice(c.as_bytes());
        }
        v
    }

    /// Intern this point and return its handle (what `compress` does).
    pub fn handle(&self) -> FreeCompressed {
        crate::coop::yield_point("compress");
        if self.0.is_empty() {
            return FreeCompressed([0u8; 32]);
        }
        let mut h = Blake2b256::new();
        h.update(b"bpsim.free.handle");
        for (id, c) in &self.0 {
            h.update(id.to_le_bytes());
            h.update(c.as_bytes());
        }
        let mut out = [0u8; 32];
        out.copy_from_slice(&h.finalize());
        STATE.with(|s| {
            let mut st = s.borrow_mut();
            st.compressions += 1;
            st.intern.entry(out).or_insert_with(|| self.clone());
        });
        FreeCompressed(out)
    }
}

impl FreeCompressed {
    pub fn lookup(&self) -> Option<FreePoint> {
        crate::coop::yield_point("decompress");
        if self.0 == [0u8; 32] {
            return Some(FreePoint::zero());
        }
        STATE.with(|s| s.borrow().intern.get(&self.0).cloned())
    }
}

// ---- traits demanded by the library -------------------------------------------------------

impl Identity for FreePoint {
    fn identity() -> Self {
        FreePoint::zero()
    }
}

impl Identity for FreeCompressed {
    fn identity() -> Self {
        FreeCompressed([0u8; 32])
    }
}

impl ConstantTimeEq for FreeCompressed {
    fn ct_eq(&self, other: &Self) -> Choice {
        self.0.ct_eq(&other.0)
    }
}
// `IsIdentity` comes from dalek's blanket impl over `ConstantTimeEq + Identity`.

impl FixedBytesRepr for FreeCompressed {
    fn as_fixed_bytes(&self) -> &[u8; 32] {
        &self.0
    }

    fn from_fixed_bytes(bytes: [u8; 32]) -> Self {
        FreeCompressed(bytes)
    }
}

impl Decompressable for FreeCompressed {
    type Decompressed = FreePoint;

    fn decompress(&self) -> Option<FreePoint> {
        self.lookup()
    }
}

impl Compressable for FreePoint {
    type Compressed = FreeCompressed;

    fn compress(&self) -> FreeCompressed {
        self.handle()
    }
}

impl FromUniformBytes for FreePoint {
    fn from_uniform_bytes(bytes: &[u8; 64]) -> Self {
        let mut h = Blake2b256::new();
        h.update(b"bpsim.free.h2g");
        h.update(bytes);
        let d = h.finalize();
        let mut id = [0u8; 8];
        id.copy_from_slice(&d[..8]);
        FreePoint::basis(u64::from_le_bytes(id))
    }
}

impl CurvePointProtocol for FreePoint {}

impl Add for FreePoint {
    type Output = FreePoint;

    fn add(mut self, rhs: FreePoint) -> FreePoint {
        self.add_scaled(&Scalar::ONE, &rhs);
        self
    }
}

impl<'a> Add<&'a FreePoint> for &'a FreePoint {
    type Output = FreePoint;

    fn add(self, rhs: &'a FreePoint) -> FreePoint {
        let mut r = self.clone();
        r.add_scaled(&Scalar::ONE, rhs);
        r
    }
}

impl AddAssign for FreePoint {
    fn add_assign(&mut self, rhs: FreePoint) {
        self.add_scaled(&Scalar::ONE, &rhs);
    }
}

impl<'a> Mul<Scalar> for &'a FreePoint {
    type Output = FreePoint;

    fn mul(self, rhs: Scalar) -> FreePoint {
        add_work(1);
        self.scaled(&rhs)
    }
}

fn msm<I, J>(scalars: I, points: J) -> FreePoint
where
    I: IntoIterator,
    I::Item: Borrow<Scalar>,
    J: IntoIterator,
    J::Item: Borrow<FreePoint>,
{
    crate::coop::yield_point("msm");
    // no intermediate copy of the scalars (they may be secrets)
    let mut si = scalars.into_iter();
    let mut pi = points.into_iter();
    let mut n = 0u64;
    let mut acc = FreePoint::zero();
    loop {
        match (si.next(), pi.next()) {
            (Some(s), Some(p)) => {
                acc.add_scaled(s.borrow(), p.borrow());
                n += 1;
            },
            (None, None) => break,
            // mirror dalek: inconsistent lengths are a panic, not a silent truncation
            _ => panic!("free-module MSM: scalars and points differ in length (after {} pairs)", n),
        }
    }
    add_work(n);
    acc
}

impl MultiscalarMul for FreePoint {
    type Point = FreePoint;

    fn multiscalar_mul<I, J>(scalars: I, points: J) -> FreePoint
    where
        I: IntoIterator,
        I::Item: Borrow<Scalar>,
        J: IntoIterator,
        J::Item: Borrow<FreePoint>,
    {
        msm(scalars, points)
    }
}

impl VartimeMultiscalarMul for FreePoint {
    type Point = FreePoint;

    fn optional_multiscalar_mul<I, J>(scalars: I, points: J) -> Option<FreePoint>
    where
        I: IntoIterator,
        I::Item: Borrow<Scalar>,
        J: IntoIterator<Item = Option<FreePoint>>,
    {
        let pts: Option<Vec<FreePoint>> = points.into_iter().collect();
        Some(msm(scalars, pts?))
    }
}

pub struct FreePrecomp {
    pub points: Vec<FreePoint>,
}

impl VartimePrecomputedMultiscalarMul for FreePrecomp {
    type Point = FreePoint;

    fn new<I>(static_points: I) -> Self
    where
        I: IntoIterator,
        I::Item: Borrow<FreePoint>,
    {
        crate::coop::yield_point("precomp_new");
        let t = FreePrecomp {
            points: static_points.into_iter().map(|p| p.borrow().clone()).collect(),
        };
        crate::coop::yield_point("precomp_built");
        t
    }

    fn optional_mixed_multiscalar_mul<I, J, K>(
        &self,
        static_scalars: I,
        dynamic_scalars: J,
        dynamic_points: K,
    ) -> Option<FreePoint>
    where
        I: IntoIterator,
        I::Item: Borrow<Scalar>,
        J: IntoIterator,
        J::Item: Borrow<Scalar>,
        K: IntoIterator<Item = Option<FreePoint>>,
    {
        crate::coop::yield_point("precomp_msm");
        let ss: Vec<Scalar> = static_scalars.into_iter().map(|s| *s.borrow()).collect();
        let ds: Vec<Scalar> = dynamic_scalars.into_iter().map(|s| *s.borrow()).collect();
        let dp: Vec<FreePoint> = dynamic_points.into_iter().collect::<Option<Vec<_>>>()?;
        // dalek's precomputed Straus asserts exactly this (backend/*/precomputed_straus.rs)
        assert_eq!(self.points.len(), ss.len(), "precomputed MSM: static scalar count != table size");
        assert_eq!(dp.len(), ds.len(), "precomputed MSM: dynamic scalar count != dynamic point count");
        let mut acc = FreePoint::zero();
        for (s, p) in ss.iter().zip(self.points.iter()) {
            acc.add_scaled(s, p);
        }
        for (s, p) in ds.iter().zip(dp.iter()) {
            acc.add_scaled(s, p);
        }
        add_work((ss.len() + ds.len()) as u64);
        STATE.with(|st| {
            let mut st = st.borrow_mut();
            if st.msm_log_on {
                st.msm_log.push(MsmEntry {
                    table_len: self.points.len(),
                    static_scalars: ss,
                    dynamic: ds.into_iter().zip(dp).collect(),
                    result: acc.clone(),
                });
            }
        });
        Some(acc)
    }
}

impl Precomputable for FreePoint {
    type Precomputation = FreePrecomp;
}
