//! Workload vocabulary shared by all checks: configurations, witnesses, transcript contexts,
//! messages, the harness's own parse of the proof byte layout, guarded library calls.

use std::{
    any::Any,
    cell::RefCell,
    panic::{catch_unwind, AssertUnwindSafe},
};

use curve25519_dalek::scalar::Scalar;
use merlin::Transcript;
use serde::{Deserialize, Serialize};
use tari_bulletproofs_plus::{
    commitment_opening::CommitmentOpening,
    errors::ProofError,
    extended_mask::ExtendedMask,
    generators::pedersen_gens::PedersenGens,
    range_parameters::RangeParameters,
    range_proof::{RangeProof, VerifyAction},
    range_statement::RangeStatement,
    range_witness::RangeWitness,
};

use crate::{
    faultrng::{FaultRng, InjectedRngPanic, RngBudgetExceeded, RngMode},
    group::Group,
    simrng::SimRng,
};

// ---- configuration -------------------------------------------------------------------------

#[derive(Clone, Copy, Debug, Serialize, Deserialize, PartialEq, Eq, Hash, PartialOrd, Ord)]
pub struct Config {
    pub bits: usize,
    pub m: usize,
    pub cap: usize,
    pub ext: usize,
}

pub const BITS: [usize; 7] = [1, 2, 4, 8, 16, 32, 64];

impl Config {
    pub fn full_length(&self) -> usize {
        self.bits * self.m
    }

    pub fn rounds(&self) -> usize {
        self.full_length().trailing_zeros() as usize
    }

    /// Swarm-style configuration: small sizes favoured, `bits*m <= max_full`.
    pub fn generate(rng: &mut SimRng, max_full: usize, max_m: usize) -> Config {
        loop {
            let bits = if rng.chance(1, 2) {
                *rng.pick(&[1usize, 2, 4, 8])
            } else {
                *rng.pick(&BITS)
            };
            let m = if rng.chance(1, 2) {
                *rng.pick(&[1usize, 2])
            } else {
                *rng.pick(&[1usize, 2, 4, 8, 16, 32])
            };
            if m > max_m || bits * m > max_full {
                continue;
            }
            let mut cap = m;
            if rng.chance(1, 3) {
                let shift = rng.range(1, 3) as usize;
                cap = (m << shift).min(32).max(m);
            }
            let ext = if rng.chance(1, 2) { 1 } else { rng.range(1, 6) as usize };
            return Config { bits, m, cap, ext };
        }
    }
}

// ---- transcript context ----------------------------------------------------------------------

pub const LABELS: [&[u8]; 8] = [
    b"bpsim context 0",
    b"bpsim context 1",
    b"",
    b"Bulletproofs+ Range Proof",
    b"dom-sep",
    b"x",
    b"bpsim context 0 ",
    b"BatchedRangeProofTest",
];

#[derive(Clone, Debug, Serialize, Deserialize, PartialEq, Eq, Hash)]
pub struct Context {
    pub label: usize,
    /// optional application data appended by the caller before handing the transcript over
    pub extra: Option<Vec<u8>>,
}

impl Context {
    pub fn transcript(&self) -> Transcript {
        let mut t = Transcript::new(LABELS[self.label % LABELS.len()]);
        if let Some(e) = &self.extra {
            t.append_message(b"app-data", e);
        }
        t
    }

    pub fn generate(rng: &mut SimRng) -> Context {
        let label = rng.usize_below(LABELS.len());
        let extra = if rng.chance(1, 4) {
            let n = rng.usize_below(40);
            let mut v = vec![0u8; n];
            rng.fill(&mut v);
            Some(v)
        } else {
            None
        };
        Context { label, extra }
    }

    /// A context guaranteed to differ from `self`.
    pub fn other(&self, rng: &mut SimRng) -> Context {
        if rng.chance(1, 2) {
            let mut l = rng.usize_below(LABELS.len());
            if l == self.label % LABELS.len() {
                l = (l + 1) % LABELS.len();
            }
            Context { label: l, extra: self.extra.clone() }
        } else {
            let mut e = self.extra.clone().unwrap_or_default();
            e.push(rng.next_u64() as u8);
            Context { label: self.label, extra: Some(e) }
        }
    }
}

// ---- witness ---------------------------------------------------------------------------------

/// Everything secret a prover holds, in resolved (replayable) form. Blinding factors and the
/// recovery seed are derived from small integers so that replay files stay readable.
#[derive(Clone, Debug, Serialize, Deserialize, PartialEq, Eq)]
pub struct WitnessSpec {
    pub values: Vec<u64>,
    pub promises: Vec<Option<u64>>,
    pub blind_seed: u64,
    pub seed_nonce: Option<u64>,
    /// openings whose blinding vector is all zero (a legal boundary: with value 0 the commitment is
    /// the identity element)
    #[serde(default)]
    pub zero_blind: Vec<usize>,
    /// openings that repeat the opening before them exactly (same value, promise and blindings, hence
    /// an equal commitment)
    #[serde(default)]
    pub same_as_prev: Vec<usize>,
    /// openings (not adjacent to it) that repeat opening 0 exactly: equal commitments at non-adjacent positions
    #[serde(default)]
    pub same_as_first: Vec<usize>,
    /// one blinding factor (opening j, position k) with a special value: 0 zero, 1 one, 2 minus one,
    /// 3 the opening's value as a scalar, 4 the recovery seed (if any), 5 equal to blinding (0, 0)
    #[serde(default)]
    pub special_blind: Option<(usize, usize, u8)>,
}

pub fn scalar_from_seed(tag: &str, seed: u64, i: u64) -> Scalar {
    SimRng::new(seed).split_idx(tag, i).scalar_nz()
}

impl WitnessSpec {
    pub fn blinding(&self, j: usize, k: usize) -> Scalar {
        let mut j = j;
        while j > 0 && self.same_as_prev.contains(&j) {
            j -= 1;
        }
        if self.same_as_first.contains(&j) {
            j = 0;
        }
        if self.zero_blind.contains(&j) {
            return Scalar::ZERO;
        }
        if let Some((sj, sk, kind)) = self.special_blind {
            if sj == j && sk == k {
                match kind {
                    0 => return Scalar::ZERO,
                    1 => return Scalar::ONE,
                    2 => return -Scalar::ONE,
                    3 => return Scalar::from(self.values.get(j).copied().unwrap_or(0)),
                    4 => {
                        if let Some(s) = self.seed() {
                            return s;
                        }
                    },
                    _ => {
                        if (j, k) != (0, 0) {
                            return scalar_from_seed("blind", self.blind_seed, 0);
                        }
                    },
                }
            }
        }
        scalar_from_seed("blind", self.blind_seed, (j as u64) << 8 | k as u64)
    }

    pub fn blindings(&self, j: usize, ext: usize) -> Vec<Scalar> {
        (0..ext).map(|k| self.blinding(j, k)).collect()
    }

    /// the recovery seed; the integers 0 and 1 stand for the boundary scalars zero and one
    pub fn seed(&self) -> Option<Scalar> {
        self.seed_nonce.map(|s| match s {
            0 => Scalar::ZERO,
            1 => Scalar::ONE,
            2 => -Scalar::ONE,
            3 => {
                // 2^252: a canonical scalar just below the group order with only bit 252 set
                let mut b = [0u8; 32];
                b[31] = 0x10;
                Scalar::from_bytes_mod_order(b)
            },
            _ => scalar_from_seed("seed_nonce", s, 0),
        })
    }

    /// Boundary-biased valid witness for `cfg`.
    pub fn generate(rng: &mut SimRng, cfg: &Config, allow_seed: bool) -> WitnessSpec {
        let max: u64 = if cfg.bits == 64 { u64::MAX } else { (1u64 << cfg.bits) - 1 };
        let mut values = Vec::with_capacity(cfg.m);
        let mut promises = Vec::with_capacity(cfg.m);
        for _ in 0..cfg.m {
            // value - promise must be < 2^bits and promise <= value; value itself must be < 2^bits
            let v = match rng.below(8) {
                0 => 0,
                1 => max,
                2 => max - rng.below((max / 2).max(1)).min(max),
                3 => rng.range(0, max),
                4 => rng.range(0, max.min(3)),
                // a single bit set, or all bits below one position set
                5 => 1u64 << rng.below(cfg.bits as u64),
                6 => (1u64 << rng.below(cfg.bits as u64)) - 1,
                _ => rng.range(0, max),
            };
            let p = match rng.below(6) {
                0 => None,
                1 => Some(0),
                2 => Some(v),
                3 => Some(rng.range(0, v)),
                // exactly half of the range, where it is a legal promise
                4 if cfg.bits >= 2 && v >= 1u64 << (cfg.bits - 1) => Some(1u64 << (cfg.bits - 1)),
                _ => None,
            };
            values.push(v);
            promises.push(p);
        }
        let seed_nonce = if allow_seed && cfg.m == 1 && rng.chance(1, 2) {
            Some(match rng.below(12) {
                0 => rng.below(4),
                _ => rng.next_u64() | 4,
            })
        } else {
            None
        };
        let mut zero_blind = Vec::new();
        if rng.chance(1, 10) {
            // boundary: an opening with an all-zero blinding vector, half of the time with value 0
            // (identity commitment), at a position biased to the last opening
            let j = if rng.chance(1, 2) { cfg.m - 1 } else { rng.usize_below(cfg.m) };
            zero_blind.push(j);
            if rng.chance(1, 2) {
                values[j] = 0;
                if promises[j].is_some() {
                    promises[j] = Some(0);
                }
            }
        }
        // uniform promise vectors: all absent, or all present and zero
        match rng.below(16) {
            0 => promises.iter_mut().for_each(|p| *p = None),
            1 => promises.iter_mut().for_each(|p| *p = Some(0)),
            // the only promise of an aggregate sits at its last position
            2 if cfg.m >= 2 => {
                promises.iter_mut().for_each(|p| *p = None);
                let last = cfg.m - 1;
                promises[last] = Some(values[last] - values[last] / 3);
            },
            // value zero everywhere
            3 => {
                values.iter_mut().for_each(|v| *v = 0);
                promises.iter_mut().for_each(|p| {
                    if p.is_some() {
                        *p = Some(0)
                    }
                });
            },
            // equal values at non-adjacent positions (commitments differ through the blinding factors)
            4 if cfg.m >= 3 => {
                for j in (2..cfg.m).step_by(2) {
                    values[j] = values[0];
                    promises[j] = promises[0];
                }
            },
            _ => {},
        }
        // boundary at 64 bits: promises of one aggregate that add up to exactly 2^64
        if cfg.bits == 64 && cfg.m >= 2 && rng.chance(1, 4) {
            let top = 1u64 << 63;
            match rng.below(3) {
                0 => {
                    for j in 0..2 {
                        values[j] = top + rng.below(1 << 20);
                        promises[j] = Some(top);
                    }
                },
                1 => {
                    values[0] = u64::MAX;
                    promises[0] = Some(u64::MAX);
                    values[1] = 1 + rng.below(1000);
                    promises[1] = Some(1);
                },
                _ if cfg.m >= 4 => {
                    for j in 0..4 {
                        values[j] = (1u64 << 62) + rng.below(1 << 20);
                        promises[j] = Some(1u64 << 62);
                    }
                },
                _ => {},
            }
            for j in 0..cfg.m.min(4) {
                zero_blind.retain(|z| *z != j);
            }
        }
        // boundary: an opening that repeats its predecessor (two equal commitments in one aggregate)
        let mut same_as_prev = Vec::new();
        if cfg.m >= 2 && rng.chance(1, 10) {
            let j = rng.range(1, cfg.m as u64 - 1) as usize;
            if !zero_blind.contains(&j) && !zero_blind.contains(&(j - 1)) {
                values[j] = values[j - 1];
                promises[j] = promises[j - 1];
                same_as_prev.push(j);
            }
        }
        // boundary: an opening that repeats opening 0 from a non-adjacent position
        let mut same_as_first = Vec::new();
        if cfg.m >= 3 && rng.chance(1, 12) {
            let j = rng.range(2, cfg.m as u64 - 1) as usize;
            if !zero_blind.contains(&j) && !zero_blind.contains(&0) && !same_as_prev.contains(&j) && !same_as_prev.contains(&(j + 1).min(cfg.m - 1)) {
                values[j] = values[0];
                promises[j] = promises[0];
                same_as_first.push(j);
            }
        }
        WitnessSpec {
            values,
            promises,
            blind_seed: rng.next_u64(),
            seed_nonce,
            zero_blind,
            same_as_prev,
            same_as_first,
            special_blind: if rng.chance(1, 8) { Some((rng.usize_below(cfg.m), rng.usize_below(cfg.ext), rng.below(6) as u8)) } else { None },
        }
    }
}

// ---- parameter cache (immutable objects only; sharing them across runs cannot alter a run) ----

thread_local! {
    static PARAMS_RISTRETTO: RefCell<Vec<(Config, Box<dyn Any>)>> = RefCell::new(Vec::new());
}

/// Parameter objects are shared within a run only: a run must not observe objects another run used.
pub fn reset_params_cache() {
    PARAMS_RISTRETTO.with(|c| c.borrow_mut().clear());
}

/// Build (or fetch a clone of) standard parameters for (bits, cap, ext) on this thread.
pub fn std_params<G: Group>(bits: usize, cap: usize, ext: usize) -> RangeParameters<G> {
    let key = Config { bits, m: if G::IS_FREE { 0 } else { 1 }, cap, ext };
    let hit = PARAMS_RISTRETTO.with(|c| {
        c.borrow()
            .iter()
            .find(|(k, b)| *k == key && b.is::<RangeParameters<G>>())
            .map(|(_, b)| b.downcast_ref::<RangeParameters<G>>().unwrap().clone())
    });
    if let Some(p) = hit {
        // make sure compressed forms of the Pedersen generators are interned in this run
        return p;
    }
    let p = valid_params::<G>(bits, cap, G::pedersen(ext));
    PARAMS_RISTRETTO.with(|c| {
        let mut c = c.borrow_mut();
        if c.len() > 64 {
            c.remove(0);
        }
        c.push((key, Box::new(p.clone())));
    });
    p
}

// ---- prover side -----------------------------------------------------------------------------

pub struct Built<G: Group> {
    pub params: RangeParameters<G>,
    pub commitments: Vec<G>,
    pub statement: RangeStatement<G>,
    /// same statement without the seed (what a public verifier holds)
    pub public_statement: RangeStatement<G>,
    pub witness: RangeWitness,
}

pub fn build_with_params<G: Group>(params: RangeParameters<G>, cfg: &Config, w: &WitnessSpec) -> Built<G> {
    let mut commitments = Vec::with_capacity(cfg.m);
    let mut openings = Vec::with_capacity(cfg.m);
    for j in 0..cfg.m {
        let r = w.blindings(j, cfg.ext);
        commitments.push(G::commit(params.pc_gens(), &Scalar::from(w.values[j]), &r).expect("commit"));
        openings.push(CommitmentOpening::new(w.values[j], r));
    }
    let witness = RangeWitness::init(openings).expect("witness");
    let statement =
        G::statement(params.clone(), commitments.clone(), w.promises.clone(), w.seed()).expect("statement");
    let public_statement =
        G::statement(params.clone(), commitments.clone(), w.promises.clone(), None).expect("statement");
    Built { params, commitments, statement, public_statement, witness }
}

pub fn build<G: Group>(cfg: &Config, w: &WitnessSpec) -> Built<G> {
    build_with_params(std_params::<G>(cfg.bits, cfg.cap, cfg.ext), cfg, w)
}

/// Caller-supplied, well-formed Pedersen generators (every cached compressed form is the encoding of its
/// point) with a legal but unusual relationship between them. Variant 0 = the standard generators (None).
pub fn related_pedersen<G: Group>(ext: usize, variant: u8, bits: usize) -> Option<PedersenGens<G>> {
    use tari_bulletproofs_plus::traits::Compressable;
    if variant == 0 {
        return None;
    }
    let mut pc = G::pedersen(ext);
    let set_g = |pc: &mut PedersenGens<G>, k: usize, p: G| {
        pc.g_base_compressed_vec[k] = p.compress();
        pc.g_base_vec[k] = p;
    };
    let set_h = |pc: &mut PedersenGens<G>, p: G| {
        pc.h_base_compressed = p.compress();
        pc.h_base = p;
    };
    match variant {
        // two blinding generators coincide
        1 if ext >= 2 => {
            let p = pc.g_base_vec[0].clone();
            set_g(&mut pc, ext - 1, p);
        },
        // one blinding generator is twice another
        2 if ext >= 2 => {
            let p = G::scale(&pc.g_base_vec[0], &Scalar::from(2u64));
            set_g(&mut pc, ext - 1, p);
        },
        // a blinding generator is the first vector generator of party 0
        4 => {
            let std = std_params::<G>(bits, 1, ext);
            let p = std.gi_base_iter().next().cloned().expect("vector generator");
            set_g(&mut pc, ext - 1, p);
        },
        // the value generator is the first H vector generator of party 0
        5 => {
            let std = std_params::<G>(bits, 1, ext);
            let p = std.hi_base_iter().next().cloned().expect("vector generator");
            set_h(&mut pc, p);
        },
        // a blinding generator is the first G vector generator of party 1 (unused by a single commitment,
        // present in every parameter set of capacity >= 2)
        6 => {
            let std = std_params::<G>(bits, 4, ext);
            let p = std.gi_base_iter().nth(bits).cloned().expect("vector generator");
            set_g(&mut pc, ext - 1, p);
        },
        // the value generator is the first H vector generator of party 3
        7 => {
            let std = std_params::<G>(bits, 4, ext);
            let p = std.hi_base_iter().nth(3 * bits).cloned().expect("vector generator");
            set_h(&mut pc, p);
        },
        // the value generator is the negative of the first blinding generator
        _ => {
            let p = G::scale(&pc.g_base_vec[0], &-Scalar::ONE);
            set_h(&mut pc, p);
        },
    }
    Some(pc)
}

/// panic payload: the library refused (or panicked in) a parameter construction whose arguments the harness
/// knows to be valid. Checks whose oracle compares operation results (C18) catch it and make it the result.
pub struct ValidConstructionRefused(pub String);

pub fn valid_params<G: Group>(bits: usize, cap: usize, pc: PedersenGens<G>) -> RangeParameters<G> {
    match catch_unwind(AssertUnwindSafe(|| G::params(bits, cap, pc))) {
        Ok(Ok(p)) => p,
        Ok(Err(e)) => std::panic::panic_any(ValidConstructionRefused(format!("refused:{}", err_class(&e)))),
        Err(_) => std::panic::panic_any(ValidConstructionRefused("panicked".to_string())),
    }
}

pub fn custom_params<G: Group>(bits: usize, cap: usize, pc: PedersenGens<G>) -> RangeParameters<G> {
    valid_params::<G>(bits, cap, pc)
}

// ---- guarded library calls -------------------------------------------------------------------

#[derive(Debug, Clone, PartialEq, Eq)]
pub enum Caught {
    /// the injected RNG crash
    InjectedRng(usize),
    /// RNG byte budget exceeded: the prover did not finish (bounded liveness)
    RngBudget(usize),
    /// any other panic: message
    Panic(String),
}

thread_local! {
    static LAST_PANIC_LOC: RefCell<String> = RefCell::new(String::new());
}

/// Install a quiet panic hook that remembers the location of the last panic on this thread.
pub fn install_quiet_panic_hook() {
    if std::env::var("BPSIM_LOUD").is_ok() {
        return;
    }
    std::panic::set_hook(Box::new(|info| {
        let loc = info
            .location()
            .map(|l| format!("{}:{}", l.file(), l.line()))
            .unwrap_or_default();
        LAST_PANIC_LOC.with(|c| *c.borrow_mut() = loc);
    }));
}

pub fn guarded<T>(f: impl FnOnce() -> T) -> Result<T, Caught> {
    match catch_unwind(AssertUnwindSafe(f)) {
        Ok(v) => Ok(v),
        Err(p) => {
            if let Some(i) = p.downcast_ref::<InjectedRngPanic>() {
                return Err(Caught::InjectedRng(i.0));
            }
            if let Some(b) = p.downcast_ref::<RngBudgetExceeded>() {
                return Err(Caught::RngBudget(b.0));
            }
            let msg = if let Some(s) = p.downcast_ref::<&str>() {
                (*s).to_string()
            } else if let Some(s) = p.downcast_ref::<String>() {
                s.clone()
            } else {
                "non-string panic payload".to_string()
            };
            let loc = LAST_PANIC_LOC.with(|c| c.borrow().clone());
            Err(Caught::Panic(format!("{} @ {}", msg, loc)))
        },
    }
}

pub type ProveResult<G> = Result<Result<RangeProof<G>, ProofError>, Caught>;

pub fn prove<G: Group>(ctx: &Context, st: &RangeStatement<G>, w: &RangeWitness, rng: &mut FaultRng) -> ProveResult<G> {
    let mut t = ctx.transcript();
    guarded(|| G::prove(&mut t, st, w, rng))
}

pub fn prove_mode<G: Group>(
    ctx: &Context,
    st: &RangeStatement<G>,
    w: &RangeWitness,
    mode: &RngMode,
) -> (ProveResult<G>, FaultRng) {
    let mut rng = FaultRng::new(mode.clone());
    let r = prove(ctx, st, w, &mut rng);
    (r, rng)
}

pub type VerifyResult = Result<Result<Vec<Option<ExtendedMask>>, ProofError>, Caught>;

pub fn verify<G: Group>(
    ctxs: &[&Context],
    sts: &[RangeStatement<G>],
    proofs: &[RangeProof<G>],
    action: VerifyAction,
) -> VerifyResult {
    let mut trs: Vec<Transcript> = ctxs.iter().map(|c| c.transcript()).collect();
    guarded(|| G::verify(&mut trs, sts, proofs, action))
}

pub fn verify_one<G: Group>(
    ctx: &Context,
    st: &RangeStatement<G>,
    proof: &RangeProof<G>,
    action: VerifyAction,
) -> VerifyResult {
    let mut trs = vec![ctx.transcript()];
    guarded(|| G::verify(&mut trs, std::slice::from_ref(st), std::slice::from_ref(proof), action))
}

pub fn action_name(a: VerifyAction) -> &'static str {
    match a {
        VerifyAction::VerifyOnly => "VerifyOnly",
        VerifyAction::RecoverAndVerify => "RecoverAndVerify",
        VerifyAction::RecoverOnly => "RecoverOnly",
    }
}

pub const ACTIONS: [VerifyAction; 3] =
    [VerifyAction::VerifyOnly, VerifyAction::RecoverAndVerify, VerifyAction::RecoverOnly];

pub fn action_from(i: usize) -> VerifyAction {
    ACTIONS[i % 3]
}

/// Canonical digest-able rendering of a verification result.
pub fn render_verify(r: &VerifyResult) -> String {
    match r {
        Ok(Ok(masks)) => {
            let mut s = String::from("Ok[");
            for m in masks {
                match m {
                    None => s.push_str("-,"),
                    Some(m) => {
                        s.push('(');
                        for b in m.blindings().unwrap_or_default() {
                            s.push_str(&hex::encode(b.as_bytes()));
                            s.push(' ');
                        }
                        s.push_str("),");
                    },
                }
            }
            s.push(']');
            s
        },
        Ok(Err(e)) => format!("Err({})", err_class(e)),
        Err(c) => format!("Caught({:?})", c),
    }
}

pub fn err_class(e: &ProofError) -> &'static str {
    match e {
        ProofError::VerificationFailed(_) => "VerificationFailed",
        ProofError::InvalidArgument(_) => "InvalidArgument",
        ProofError::InvalidLength(_) => "InvalidLength",
        ProofError::InvalidBlake2b => "InvalidBlake2b",
        ProofError::SizeOverflow => "SizeOverflow",
    }
}

// ---- the harness's own view of the proof byte layout -----------------------------------------

#[derive(Clone, Debug, PartialEq, Eq, Serialize, Deserialize)]
pub struct ProofParts {
    pub ext_tag: u8,
    pub d1: Vec<[u8; 32]>,
    pub a: [u8; 32],
    pub a1: [u8; 32],
    pub b: [u8; 32],
    pub r1: [u8; 32],
    pub s1: [u8; 32],
    pub lr: Vec<([u8; 32], [u8; 32])>,
}

impl ProofParts {
    /// Parse with the harness's own reading of the layout: degree byte, d1[degree], A, A1, B, r1,
    /// s1, then (L, R) pairs. Returns None if the bytes do not have that shape.
    pub fn parse(bytes: &[u8]) -> Option<ProofParts> {
        let ext_tag = *bytes.first()?;
        if !(1..=6).contains(&ext_tag) {
            return None;
        }
        let rest = &bytes[1..];
        if rest.len() % 32 != 0 {
            return None;
        }
        let el: Vec<[u8; 32]> = rest
            .chunks_exact(32)
            .map(|c| {
                let mut a = [0u8; 32];
                a.copy_from_slice(c);
                a
            })
            .collect();
        let d = ext_tag as usize;
        if el.len() < d + 5 || (el.len() - d - 5) % 2 != 0 {
            return None;
        }
        let lr = el[d + 5..].chunks_exact(2).map(|p| (p[0], p[1])).collect();
        Some(ProofParts {
            ext_tag,
            d1: el[..d].to_vec(),
            a: el[d],
            a1: el[d + 1],
            b: el[d + 2],
            r1: el[d + 3],
            s1: el[d + 4],
            lr,
        })
    }

    pub fn to_bytes(&self) -> Vec<u8> {
        let mut v = Vec::with_capacity(1 + 32 * (5 + self.d1.len() + 2 * self.lr.len()));
        v.push(self.ext_tag);
        for d in &self.d1 {
            v.extend_from_slice(d);
        }
        v.extend_from_slice(&self.a);
        v.extend_from_slice(&self.a1);
        v.extend_from_slice(&self.b);
        v.extend_from_slice(&self.r1);
        v.extend_from_slice(&self.s1);
        for (l, r) in &self.lr {
            v.extend_from_slice(l);
            v.extend_from_slice(r);
        }
        v
    }

    pub fn of<G: Group>(p: &RangeProof<G>) -> Option<ProofParts> {
        ProofParts::parse(&G::to_bytes(p))
    }

    pub fn scalar(b: &[u8; 32]) -> Option<Scalar> {
        Option::<Scalar>::from(Scalar::from_canonical_bytes(*b))
    }

    /// Names of all 32-byte elements in order (for fault enumeration and reports).
    pub fn element_names(&self) -> Vec<String> {
        let mut v: Vec<String> = (0..self.d1.len()).map(|k| format!("d1[{}]", k)).collect();
        for n in ["A", "A1", "B", "r1", "s1"] {
            v.push(n.to_string());
        }
        for j in 0..self.lr.len() {
            v.push(format!("L[{}]", j));
            v.push(format!("R[{}]", j));
        }
        v
    }

    pub fn element_is_scalar(&self, idx: usize) -> bool {
        let d = self.d1.len();
        idx < d || idx == d + 3 || idx == d + 4
    }

    pub fn element_mut(&mut self, idx: usize) -> &mut [u8; 32] {
        let d = self.d1.len();
        if idx < d {
            return &mut self.d1[idx];
        }
        match idx - d {
            0 => &mut self.a,
            1 => &mut self.a1,
            2 => &mut self.b,
            3 => &mut self.r1,
            4 => &mut self.s1,
            k => {
                let j = (k - 5) / 2;
                if (k - 5) % 2 == 0 {
                    &mut self.lr[j].0
                } else {
                    &mut self.lr[j].1
                }
            },
        }
    }

    pub fn element(&self, idx: usize) -> [u8; 32] {
        let mut c = self.clone();
        *c.element_mut(idx)
    }

    pub fn n_elements(&self) -> usize {
        self.d1.len() + 5 + 2 * self.lr.len()
    }
}

pub fn hex32(b: &[u8; 32]) -> String {
    hex::encode(b)
}

pub fn masks_of(r: &VerifyResult) -> Option<Vec<Option<Vec<Scalar>>>> {
    match r {
        Ok(Ok(m)) => Some(m.iter().map(|x| x.as_ref().map(|e| e.blindings().unwrap_or_default())).collect()),
        _ => None,
    }
}

pub fn is_ok(r: &VerifyResult) -> bool {
    matches!(r, Ok(Ok(_)))
}

pub fn is_err(r: &VerifyResult) -> bool {
    matches!(r, Ok(Err(_)))
}

// ---- stale-stack seam ------------------------------------------------------------------------

/// Fill the stack region below the caller's frame with a period-32 byte pattern. Whatever the
/// next call leaves uninitialised in its own frames (padding, payload of a `None`, ...) then has
/// simulator-chosen content instead of whatever earlier activity of this thread left behind:
/// one more source of nondeterminism put behind a seam.
#[inline(never)]
pub fn paint_stack(pat: &[u8; 32]) {
    let mut buf = [0u8; 96 * 1024];
    let base = buf.as_ptr() as usize;
    for (i, b) in buf.iter_mut().enumerate() {
        *b = pat[(base + i) % 32];
    }
    std::hint::black_box(&mut buf);
}

pub const NEUTRAL_STACK: [u8; 32] = [0xA5; 32];
