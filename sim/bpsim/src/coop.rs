//! Cooperative scheduler for real threads: preemption INSIDE library calls, decided by the seed.
//!
//! Several OS threads execute library calls concurrently in the logical sense, but only one of
//! them runs at any instant: every thread parks at each *interception point* and the seeded
//! scheduler decides who continues. Interception points are the seams the simulator owns and the
//! library calls into while it works:
//!   * the group seam (free module): every MSM, table construction, compress, decompress and
//!     hash-to-group;
//!   * the Fiat-Shamir seam (merlin tap hook): every transcript append, challenge and RNG
//!     operation;
//!   * the RNG seam: every read of the external RNG.
//! So a call such as `verify_batch` is cut into hundreds of slices and another thread's call can
//! be scheduled between any two of them — enough to expose logical races on state shared through
//! cloned parameter objects (check-then-act, prepare/fetch, implicit arguments in atomics), which
//! the operation-level scheduler cannot see and Miri can only reach at minutes per schedule.
//! Data races on plain memory are not visible here (that is what the Miri phase is for).
//!
//! The choice of who runs is a pure function of the seed and of the sequence of interception
//! points, so one seed is one exactly repeatable interleaving; the trace of (thread, point) pairs
//! is hashed into the run's event log.

use std::{
    cell::RefCell,
    panic::{catch_unwind, AssertUnwindSafe},
    sync::{Arc, Condvar, Mutex},
    time::Duration,
};

use crate::simrng::SimRng;

struct Inner {
    current: usize,
    alive: Vec<bool>,
    rng: SimRng,
    /// out of 16: probability of staying on the current thread at an interception point
    stay: u64,
    trace_hash: u64,
    points: u64,
    switches: u64,
    progress: u64,
}

pub struct Coop {
    inner: Mutex<Inner>,
    cv: Condvar,
}

thread_local! {
    static ME: RefCell<Option<(Arc<Coop>, usize)>> = const { RefCell::new(None) };
}

fn fnv(h: u64, x: u64) -> u64 {
    (h ^ x).wrapping_mul(0x0000_0100_0000_01B3)
}

fn tag_hash(tag: &str) -> u64 {
    tag.bytes().fold(0xcbf2_9ce4_8422_2325, |h, b| fnv(h, u64::from(b)))
}

impl Coop {
    fn pick_next(inner: &mut Inner, me: Option<usize>) -> Option<usize> {
        let alive: Vec<usize> = (0..inner.alive.len()).filter(|i| inner.alive[*i]).collect();
        if alive.is_empty() {
            return None;
        }
        if let Some(me) = me {
            if inner.alive[me] && inner.rng.below(16) < inner.stay {
                return Some(me);
            }
        }
        Some(alive[inner.rng.usize_below(alive.len())])
    }

    fn wait_turn(&self, me: usize) {
        let mut g = self.inner.lock().unwrap();
        let mut last_progress = g.progress;
        let mut stalled = 0u32;
        while g.current != me {
            let (ng, to) = self.cv.wait_timeout(g, Duration::from_secs(5)).unwrap();
            g = ng;
            if to.timed_out() {
                if g.progress == last_progress {
                    stalled += 1;
                    if stalled >= 6 {
                        // the thread whose turn it is does not reach an interception point: it is
                        // blocked on a real lock held by a parked thread (or loops forever)
                        eprintln!("HARNESS-ERROR cooperative scheduler: thread {} made no progress for 30 s (blocked on a lock held by a parked thread?)", g.current);
                        std::process::exit(2);
                    }
                } else {
                    last_progress = g.progress;
                    stalled = 0;
                }
            }
        }
    }
}

/// Interception point. No-op on threads that do not take part in a cooperative run.
pub fn yield_point(tag: &'static str) {
    let me = ME.with(|m| m.borrow().clone());
    let Some((coop, me)) = me else { return };
    {
        let mut g = coop.inner.lock().unwrap();
        g.points += 1;
        g.progress += 1;
        g.trace_hash = fnv(fnv(g.trace_hash, me as u64), tag_hash(tag));
        let next = Coop::pick_next(&mut g, Some(me)).unwrap_or(me);
        if next == me {
            return;
        }
        g.switches += 1;
        g.current = next;
        coop.cv.notify_all();
    }
    coop.wait_turn(me);
}

fn tap_hook(tag: &'static str) {
    yield_point(tag);
}

pub struct CoopReport {
    pub trace_hash: u64,
    pub points: u64,
    pub switches: u64,
}

/// Run `jobs` as logically concurrent threads under the seeded cooperative scheduler. Returns each
/// job's result (Err = the job panicked, with the panic message) and the schedule report.
pub fn run_threads<T: Send>(seed: u64, stay: u64, jobs: Vec<Box<dyn FnOnce() -> T + Send + '_>>) -> (Vec<Result<T, String>>, CoopReport) {
    let n = jobs.len();
    let mut rng = SimRng::new(seed);
    let first = rng.usize_below(n.max(1));
    let coop = Arc::new(Coop {
        inner: Mutex::new(Inner {
            current: first,
            alive: vec![true; n],
            rng,
            stay: stay.min(15),
            trace_hash: 0xcbf2_9ce4_8422_2325,
            points: 0,
            switches: 0,
            progress: 0,
        }),
        cv: Condvar::new(),
    });
    let mut results: Vec<Option<Result<T, String>>> = (0..n).map(|_| None).collect();
    std::thread::scope(|sc| {
        let mut handles = Vec::new();
        for (i, job) in jobs.into_iter().enumerate() {
            let coop = coop.clone();
            handles.push(sc.spawn(move || {
                crate::world::install_quiet_panic_hook();
                crate::free::reset_run_state();
                crate::world::reset_params_cache();
                ME.with(|m| *m.borrow_mut() = Some((coop.clone(), i)));
                merlin::tap::set_hook(Some(tap_hook));
                coop.wait_turn(i);
                let r = catch_unwind(AssertUnwindSafe(job));
                merlin::tap::set_hook(None);
                ME.with(|m| *m.borrow_mut() = None);
                // hand the turn on
                {
                    let mut g = coop.inner.lock().unwrap();
                    g.alive[i] = false;
                    g.progress += 1;
                    if let Some(next) = Coop::pick_next(&mut g, None) {
                        g.current = next;
                    }
                    coop.cv.notify_all();
                }
                r.map_err(|p| {
                    if let Some(s) = p.downcast_ref::<&str>() {
                        (*s).to_string()
                    } else if let Some(s) = p.downcast_ref::<String>() {
                        s.clone()
                    } else {
                        "panic".to_string()
                    }
                })
            }));
        }
        for (i, h) in handles.into_iter().enumerate() {
            results[i] = Some(h.join().unwrap_or_else(|_| Err("thread died".to_string())));
        }
    });
    let g = coop.inner.lock().unwrap();
    (
        results.into_iter().map(|r| r.unwrap()).collect(),
        CoopReport { trace_hash: g.trace_hash, points: g.points, switches: g.switches },
    )
}
