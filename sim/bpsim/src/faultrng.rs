//! RNG seam (S1): the external RNG handed to `prove_with_rng` is an argument of the API, so the
//! simulator owns it. `FaultRng` serves a healthy seeded stream or one of the failure modes real
//! deployments meet, counts calls and bytes, enforces a byte budget (bounded liveness) and can
//! "crash" at a chosen call.

use rand_core::{CryptoRng, RngCore};
use serde::{Deserialize, Serialize};

use crate::simrng::SimRng;

#[derive(Clone, Debug, Serialize, Deserialize, PartialEq, Eq)]
pub enum RngMode {
    Healthy(u64),
    AllZero,
    AllOnes,
    ConstantByte(u8),
    /// byte stream with period `p`, pattern derived from the u64
    ShortPeriod(usize, u64),
    /// bytes 0,1,2,... (wrapping), restarted for every prover run
    Counter,
    /// healthy stream `seed` for the first `n` bytes, afterwards the last served 32-byte block repeats
    StuckAfter(usize, u64),
    /// a recorded stream (hex) replayed from its start, looping
    Replay(String),
    /// healthy stream, but the `i`-th call (1-based) of fill_bytes panics: models OsRng failing
    PanicAt(usize, u64),
    /// healthy stream except that the `i`-th call (1-based) returns zeros
    ZeroBlockAt(usize, u64),
    /// healthy stream except that the `i`-th call (1-based, i >= 2) returns what the previous call returned
    RepeatBlockAt(usize, u64),
}

impl RngMode {
    pub fn kind(&self) -> &'static str {
        match self {
            RngMode::Healthy(_) => "healthy",
            RngMode::AllZero => "all_zero",
            RngMode::AllOnes => "all_ones",
            RngMode::ConstantByte(_) => "constant_byte",
            RngMode::ShortPeriod(..) => "short_period",
            RngMode::Counter => "counter",
            RngMode::StuckAfter(..) => "stuck_after",
            RngMode::Replay(_) => "replay",
            RngMode::PanicAt(..) => "panic_at",
            RngMode::ZeroBlockAt(..) => "zero_block_at",
            RngMode::RepeatBlockAt(..) => "repeat_block_at",
        }
    }

    pub fn is_faulty(&self) -> bool {
        !matches!(self, RngMode::Healthy(_))
    }
}

/// Panic payloads the harness recognises.
#[derive(Debug)]
pub struct InjectedRngPanic(pub usize);
#[derive(Debug)]
pub struct RngBudgetExceeded(pub usize);

pub const RNG_BYTE_BUDGET: usize = 64 * 1024;

pub struct FaultRng {
    mode: RngMode,
    healthy: SimRng,
    pattern: Vec<u8>,
    pos: usize,
    last_block: [u8; 32],
    pub calls: usize,
    pub bytes: usize,
    pub budget: usize,
    /// every byte served, in order (for Replay faults and for public-computability checks)
    pub served: Vec<u8>,
}

impl FaultRng {
    pub fn new(mode: RngMode) -> Self {
        let (healthy, pattern) = match &mode {
            RngMode::Healthy(s)
            | RngMode::StuckAfter(_, s)
            | RngMode::PanicAt(_, s)
            | RngMode::ZeroBlockAt(_, s)
            | RngMode::RepeatBlockAt(_, s) => (SimRng::new(*s), vec![]),
            RngMode::ShortPeriod(p, s) => {
                let mut r = SimRng::new(*s);
                let mut v = vec![0u8; *p];
                r.fill(&mut v);
                (SimRng::new(0), v)
            },
            RngMode::Replay(h) => {
                let v = hex::decode(h).expect("replay stream is hex");
                (SimRng::new(0), if v.is_empty() { vec![0u8] } else { v })
            },
            _ => (SimRng::new(0), vec![]),
        };
        FaultRng {
            mode,
            healthy,
            pattern,
            pos: 0,
            last_block: [0u8; 32],
            calls: 0,
            bytes: 0,
            budget: RNG_BYTE_BUDGET,
            served: Vec::new(),
        }
    }

    pub fn mode(&self) -> &RngMode {
        &self.mode
    }
}

impl RngCore for FaultRng {
    fn next_u32(&mut self) -> u32 {
        let mut b = [0u8; 4];
        self.fill_bytes(&mut b);
        u32::from_le_bytes(b)
    }

    fn next_u64(&mut self) -> u64 {
        let mut b = [0u8; 8];
        self.fill_bytes(&mut b);
        u64::from_le_bytes(b)
    }

    fn fill_bytes(&mut self, dest: &mut [u8]) {
        crate::coop::yield_point("external_rng");
        self.calls += 1;
        if let RngMode::PanicAt(i, _) = self.mode {
            if self.calls == i {
                std::panic::panic_any(InjectedRngPanic(i));
            }
        }
        if self.bytes + dest.len() > self.budget {
            std::panic::panic_any(RngBudgetExceeded(self.bytes + dest.len()));
        }
        match &self.mode {
            RngMode::Healthy(_) | RngMode::PanicAt(..) => self.healthy.fill(dest),
            RngMode::ZeroBlockAt(i, _) => {
                if self.calls == *i {
                    dest.iter_mut().for_each(|b| *b = 0);
                } else {
                    self.healthy.fill(dest);
                }
            },
            RngMode::RepeatBlockAt(i, _) => {
                if self.calls == *i && self.calls >= 2 {
                    for (k, b) in dest.iter_mut().enumerate() {
                        *b = self.last_block[k % 32];
                    }
                } else {
                    self.healthy.fill(dest);
                    for (k, b) in dest.iter().enumerate().take(32) {
                        self.last_block[k] = *b;
                    }
                }
            },
            RngMode::AllZero => dest.iter_mut().for_each(|b| *b = 0),
            RngMode::AllOnes => dest.iter_mut().for_each(|b| *b = 0xff),
            RngMode::ConstantByte(c) => {
                let c = *c;
                dest.iter_mut().for_each(|b| *b = c)
            },
            RngMode::ShortPeriod(..) | RngMode::Replay(_) => {
                for b in dest.iter_mut() {
                    *b = self.pattern[self.pos % self.pattern.len()];
                    self.pos += 1;
                }
            },
            RngMode::Counter => {
                for b in dest.iter_mut() {
                    *b = (self.pos & 0xff) as u8;
                    self.pos += 1;
                }
            },
            RngMode::StuckAfter(n, _) => {
                let n = *n;
                for b in dest.iter_mut() {
                    if self.pos < n {
                        let mut one = [0u8; 1];
                        self.healthy.fill(&mut one);
                        // keep the healthy stream byte-granular so that `n` is exact
                        *b = one[0];
                        self.last_block[self.pos % 32] = *b;
                    } else {
                        *b = self.last_block[self.pos % 32];
                    }
                    self.pos += 1;
                }
            },
        }
        self.bytes += dest.len();
        self.served.extend_from_slice(dest);
    }

    fn try_fill_bytes(&mut self, dest: &mut [u8]) -> Result<(), rand_core::Error> {
        self.fill_bytes(dest);
        Ok(())
    }
}

impl CryptoRng for FaultRng {}


// ---- the shape of the RNG object ---------------------------------------------------------------
//
// The external RNG is a generic argument of the prover. What the prover does with it must depend on the
// bytes it serves, not on what kind of object serves them. `HandleRng` is the other common shape: a
// zero-sized handle (like `rand_core::OsRng` or a thread-local generator) whose state lives elsewhere.

thread_local! {
    static CURRENT: std::cell::Cell<*mut FaultRng> = std::cell::Cell::new(std::ptr::null_mut());
    static VIA_HANDLE: std::cell::Cell<bool> = std::cell::Cell::new(false);
}

/// Zero-sized handle onto the `FaultRng` installed on this thread.
pub struct HandleRng;

impl RngCore for HandleRng {
    fn next_u32(&mut self) -> u32 {
        let mut b = [0u8; 4];
        self.fill_bytes(&mut b);
        u32::from_le_bytes(b)
    }

    fn next_u64(&mut self) -> u64 {
        let mut b = [0u8; 8];
        self.fill_bytes(&mut b);
        u64::from_le_bytes(b)
    }

    fn fill_bytes(&mut self, dest: &mut [u8]) {
        let p = CURRENT.with(|c| c.get());
        assert!(!p.is_null(), "harness: HandleRng used without an installed generator");
        // the installer holds the only other reference and does not touch it while the handle is in use
        unsafe { (*p).fill_bytes(dest) }
    }

    fn try_fill_bytes(&mut self, dest: &mut [u8]) -> Result<(), rand_core::Error> {
        self.fill_bytes(dest);
        Ok(())
    }
}

impl CryptoRng for HandleRng {}

pub struct HandleInstalled;

impl HandleInstalled {
    pub fn install(rng: &mut FaultRng) -> HandleInstalled {
        CURRENT.with(|c| c.set(rng as *mut FaultRng));
        HandleInstalled
    }
}

impl Drop for HandleInstalled {
    fn drop(&mut self) {
        CURRENT.with(|c| c.set(std::ptr::null_mut()));
    }
}

/// Should provers started on this thread receive the zero-sized handle instead of the generator itself?
pub fn via_handle() -> bool {
    VIA_HANDLE.with(|c| c.get())
}

/// Run `f` with every prover call on this thread served through the zero-sized handle.
pub fn with_handle<T>(on: bool, f: impl FnOnce() -> T) -> T {
    struct Restore(bool);
    impl Drop for Restore {
        fn drop(&mut self) {
            VIA_HANDLE.with(|c| c.set(self.0));
        }
    }
    let _r = Restore(VIA_HANDLE.with(|c| c.replace(on)));
    f()
}
