//! bpsim — deterministic simulation with fault injection for tari_bulletproofs_plus.
//!
//! usage: bpsim <C01|...|replay|selftest|single-op> [--tier quick|thorough] [--seed N] [--jobs J]

mod alloc;
mod checks;
mod faultrng;
mod free;
mod group;
mod runner;
mod simrng;
mod world;

use std::path::PathBuf;

use runner::{drive, Check, Opts, ReplayFile, Tier};

#[global_allocator]
static GLOBAL: alloc::SimAlloc = alloc::SimAlloc;

fn parse_opts(args: &[String]) -> Opts {
    let mut tier = match std::env::var("VERIF_TIER").ok().as_deref() {
        Some("thorough") => Tier::Thorough,
        _ => Tier::Quick,
    };
    let mut seed = std::env::var("VERIF_SEED")
        .ok()
        .and_then(|s| s.trim().parse::<u64>().ok())
        .unwrap_or(simrng::DEFAULT_SEED);
    let mut jobs = std::thread::available_parallelism().map(|n| n.get()).unwrap_or(4);
    let mut runs = None;
    let mut dump_hashes = None;
    let mut write_evidence = true;
    let mut i = 0;
    while i < args.len() {
        match args[i].as_str() {
            "--tier" => {
                i += 1;
                tier = if args[i] == "thorough" { Tier::Thorough } else { Tier::Quick };
            },
            "--seed" => {
                i += 1;
                seed = args[i].parse().expect("--seed N");
            },
            "--jobs" => {
                i += 1;
                jobs = args[i].parse().expect("--jobs J");
            },
            "--runs" => {
                i += 1;
                runs = Some(args[i].parse().expect("--runs N"));
            },
            "--dump-hashes" => {
                i += 1;
                dump_hashes = Some(PathBuf::from(&args[i]));
            },
            "--no-evidence" => write_evidence = false,
            "quick" => tier = Tier::Quick,
            "thorough" => tier = Tier::Thorough,
            other => {
                eprintln!("unknown argument {}", other);
                std::process::exit(2);
            },
        }
        i += 1;
    }
    let root = std::env::var("BPSIM_ROOT").map(PathBuf::from).unwrap_or_else(|_| PathBuf::from("/verif"));
    Opts {
        tier,
        seed,
        jobs,
        root,
        runs,
        dump_hashes,
        write_evidence,
        max_wall_s: if tier == Tier::Quick { 1_500 } else { 6 * 3600 },
    }
}

fn replay_file<C: Check>(c: &C, f: &ReplayFile, path: &str) -> i32 {
    match runner::replay(c, f) {
        Some(v) => {
            println!("violation: invariant={} detail={}", v.invariant, v.detail);
            println!("VIOLATION property={} replay={}", c.id(), path);
            1
        },
        None => {
            println!("replay of {} did not reproduce invariant {}", path, f.invariant);
            0
        },
    }
}

fn main() {
    let args: Vec<String> = std::env::args().skip(1).collect();
    if args.is_empty() {
        eprintln!("usage: bpsim <check|replay|selftest> ...");
        std::process::exit(2);
    }
    world::install_quiet_panic_hook();
    let cmd = args[0].as_str();
    let code = match cmd {
        "replay" => {
            let path = &args[1];
            let f: ReplayFile =
                serde_json::from_str(&std::fs::read_to_string(path).expect("read replay file")).expect("replay parses");
            match f.property.as_str() {
                "C01" => replay_file(&checks::c01::C01, &f, path),
                other => {
                    eprintln!("no replay handler for {}", other);
                    2
                },
            }
        },
        "C01" => drive(&checks::c01::C01, &parse_opts(&args[1..]), vec![]),
        other => {
            eprintln!("unknown command {}", other);
            2
        },
    };
    std::process::exit(code);
}
