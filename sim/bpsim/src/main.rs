//! bpsim — deterministic simulation with fault injection for tari_bulletproofs_plus.
//!
//! usage: bpsim <C01|...|replay|selftest|single-op> [--tier quick|thorough] [--seed N] [--jobs J]

mod alloc;
mod channel;
mod checks;
mod faultrng;
mod free;
mod group;
mod observe;
mod refmodel;
mod runner;
mod simrng;
mod world;

use std::path::PathBuf;

use runner::{drive, Check, Opts, ReplayFile, Tier};

#[global_allocator]
static GLOBAL: alloc::SimAlloc = alloc::SimAlloc;

fn parse_opts(args: &[String]) -> Opts {
    let mut tier = match std::env::var("VERIF_TIER").ok().as_deref() {
        Some("thorough") => Tier::Thorough,
        _ => Tier::Quick,
    };
    let mut seed = std::env::var("VERIF_SEED")
        .ok()
        .and_then(|s| s.trim().parse::<u64>().ok())
        .unwrap_or(simrng::DEFAULT_SEED);
    let mut jobs = std::thread::available_parallelism().map(|n| n.get()).unwrap_or(4);
    let mut runs = None;
    let mut dump_hashes = None;
    let mut write_evidence = true;
    let mut child_json = None;
    let mut stride = None;
    let mut wal = None;
    let mut i = 0;
    while i < args.len() {
        match args[i].as_str() {
            "--tier" => {
                i += 1;
                tier = if args[i] == "thorough" { Tier::Thorough } else { Tier::Quick };
            },
            "--seed" => {
                i += 1;
                seed = args[i].parse().expect("--seed N");
            },
            "--jobs" => {
                i += 1;
                jobs = args[i].parse().expect("--jobs J");
            },
            "--runs" => {
                i += 1;
                runs = Some(args[i].parse().expect("--runs N"));
            },
            "--dump-hashes" => {
                i += 1;
                dump_hashes = Some(PathBuf::from(&args[i]));
            },
            "--no-evidence" => write_evidence = false,
            "--stride" => {
                i += 1;
                let (k, j) = args[i].split_once('/').expect("--stride k/J");
                stride = Some((k.parse().unwrap(), j.parse().unwrap()));
            },
            "--wal" => {
                i += 1;
                wal = Some(PathBuf::from(&args[i]));
            },
            "--child-json" => {
                i += 1;
                child_json = Some(PathBuf::from(&args[i]));
            },
            "quick" => tier = Tier::Quick,
            "thorough" => tier = Tier::Thorough,
            other => {
                eprintln!("unknown argument {}", other);
                std::process::exit(2);
            },
        }
        i += 1;
    }
    let root = std::env::var("BPSIM_ROOT").map(PathBuf::from).unwrap_or_else(|_| PathBuf::from("/verif"));
    Opts {
        tier,
        seed,
        jobs,
        root,
        runs,
        dump_hashes,
        write_evidence,
        max_wall_s: if tier == Tier::Quick { 1_500 } else { 6 * 3600 },
        child_json,
        stride,
        wal,
        check_probes: runs.is_none(),
    }
}

fn replay_file<C: Check>(c: &C, f: &ReplayFile, path: &str) -> i32 {
    match runner::replay(c, f) {
        Some(v) => {
            println!("violation: invariant={} detail={}", v.invariant, v.detail);
            println!("VIOLATION property={} replay={}", c.id(), path);
            1
        },
        None => {
            println!("replay of {} did not reproduce invariant {}", path, f.invariant);
            0
        },
    }
}

/// Run the whole seeded batch of `check` in `opts.jobs` single-threaded child processes
/// (run i goes to child i mod J), each with a write-ahead file naming the run in progress.
fn in_children<C: Check>(check: &C, name: &str, opts: &Opts) -> Vec<runner::ExtraPhase> {
    let bin = std::env::current_exe().expect("current exe").to_string_lossy().to_string();
    let j = opts.jobs.max(1) as u64;
    let total = opts.runs.unwrap_or_else(|| check.runs(opts.tier));
    let phases = std::sync::Mutex::new(Vec::new());
    std::thread::scope(|sc| {
        for k in 0..j {
            let bin = bin.clone();
            let phases = &phases;
            sc.spawn(move || {
                let wal = std::env::temp_dir().join(format!("bpsim-wal-{}-{}-{}", name, std::process::id(), k));
                let _ = std::fs::remove_file(&wal);
                let a: Vec<String> = vec![
                    name.into(),
                    "--tier".into(),
                    opts.tier.name().into(),
                    "--seed".into(),
                    opts.seed.to_string(),
                    "--jobs".into(),
                    "1".into(),
                    "--runs".into(),
                    total.to_string(),
                    "--stride".into(),
                    format!("{}/{}", k, j),
                    "--wal".into(),
                    wal.to_string_lossy().to_string(),
                ];
                let mut ph = runner::child_phase(&format!("child_{}_of_{}", k, j), &bin, &a, &[]);
                if ph.error.is_some() && ph.info.get("abnormal_exit").is_some() {
                    // attribute the abort to the run named in the write-ahead file
                    if let Ok(txt) = std::fs::read_to_string(&wal) {
                        if let Ok(idx) = txt.trim().parse::<u64>() {
                            let mut rng = simrng::SimRng::for_run(opts.seed, check.id(), idx);
                            let scn = check.generate(&mut rng, opts.tier, idx);
                            ph.found.push((
                                runner::Violation::new(
                                    "process_aborted",
                                    format!("run {}", idx),
                                    format!("child process died ({}) while executing run {}", ph.info["abnormal_exit"], idx),
                                ),
                                serde_json::to_value(&scn).unwrap(),
                            ));
                            ph.error = None;
                        }
                    }
                }
                let _ = std::fs::remove_file(&wal);
                phases.lock().unwrap().push(ph);
            });
        }
    });
    let mut v = phases.into_inner().unwrap();
    v.sort_by(|a, b| a.name.cmp(&b.name));
    v
}

fn main() {
    let args: Vec<String> = std::env::args().skip(1).collect();
    if args.is_empty() {
        eprintln!("usage: bpsim <check|replay|selftest> ...");
        std::process::exit(2);
    }
    world::install_quiet_panic_hook();
    let cmd = args[0].as_str();
    let code = match cmd {
        "replay" => {
            let path = &args[1];
            let f: ReplayFile =
                serde_json::from_str(&std::fs::read_to_string(path).expect("read replay file")).expect("replay parses");
            macro_rules! rp {
                ($($id:literal => $c:expr),* $(,)?) => {
                    match f.property.as_str() {
                        $($id => replay_file(&$c, &f, path),)*
                        other => {
                            eprintln!("no replay handler for {}", other);
                            2
                        },
                    }
                };
            }
            rp! {
                "C01" => checks::c01::C01,
                "C03" => checks::c03::C03,
                "C20" => checks::c20::C20,
                "C05" => checks::c05::C05,
                "C16" => checks::c16::C16,
                "C13" => checks::c13::C13,
                "C14" => checks::c14::C14,
                "C02" => checks::c02::C02,
                "C04" => checks::c04::C04,
                "C08" => checks::c08::C08,
                "C12" => checks::c12::C12,
            }
        },
        "C01" => drive(&checks::c01::C01, &parse_opts(&args[1..]), vec![]),
        "C03" => drive(&checks::c03::C03, &parse_opts(&args[1..]), vec![]),
        "C05" => drive(&checks::c05::C05, &parse_opts(&args[1..]), vec![]),
        "C13" => drive(&checks::c13::C13, &parse_opts(&args[1..]), vec![]),
        "C02" => drive(&checks::c02::C02, &parse_opts(&args[1..]), vec![]),
        "C04" => drive(&checks::c04::C04, &parse_opts(&args[1..]), vec![]),
        "C08" => drive(&checks::c08::C08, &parse_opts(&args[1..]), vec![]),
        "C12" => drive(&checks::c12::C12, &parse_opts(&args[1..]), vec![]),
        "C14" => drive(&checks::c14::C14, &parse_opts(&args[1..]), vec![]),
        "C16" => {
            let opts = parse_opts(&args[1..]);
            if opts.child_json.is_some() {
                drive(&checks::c16::C16, &opts, vec![])
            } else {
                // every run executes in a child process so that an abort is attributed to a run
                let phases = in_children(&checks::c16::C16, "C16", &opts);
                let mut o = opts.clone();
                o.runs = Some(16); // a small in-process batch supplies the evidence samples
                drive(&checks::c16::C16, &o, phases)
            }
        },
        "C20" => {
            let opts = parse_opts(&args[1..]);
            let mut extra = vec![];
            if opts.child_json.is_none() {
                // second configuration: the other build profile of the library
                if let Ok(bin) = std::env::var("BPSIM_OTHER_BIN") {
                    let other = std::env::var("BPSIM_OTHER_PROFILE").unwrap_or_else(|_| "release".into());
                    let mut a: Vec<String> = vec!["C20".into(), "--tier".into(), opts.tier.name().into(), "--seed".into(), opts.seed.to_string(), "--jobs".into(), opts.jobs.to_string()];
                    if let Some(r) = opts.runs {
                        a.push("--runs".into());
                        a.push(r.to_string());
                    }
                    extra.push(runner::child_phase(&format!("profile_{}", other), &bin, &a, &[("BPSIM_PROFILE", other.as_str())]));
                } else {
                    extra.push(runner::ExtraPhase {
                        name: "profile_other".into(),
                        error: Some("BPSIM_OTHER_BIN not set: run C20 through ./bpsim.sh so that both build profiles are exercised".into()),
                        ..Default::default()
                    });
                }
            }
            drive(&checks::c20::C20, &opts, extra)
        },
        other => {
            eprintln!("unknown command {}", other);
            2
        },
    };
    std::process::exit(code);
}
