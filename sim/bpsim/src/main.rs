//! bpsim — deterministic simulation with fault injection for tari_bulletproofs_plus.
//!
//! usage: bpsim <C01|...|replay|selftest|single-op> [--tier quick|thorough] [--seed N] [--jobs J]

#![allow(dead_code, private_interfaces)]

mod alloc;
mod channel;
mod checks;
mod coop;
mod faultrng;
mod forge;
mod free;
mod group;
mod miri;
mod observe;
mod refmodel;
mod runner;
mod simrng;
mod world;

use std::path::PathBuf;

use runner::{drive, Check, Opts, ReplayFile, Tier};

#[global_allocator]
static GLOBAL: alloc::SimAlloc = alloc::SimAlloc;

fn parse_opts(args: &[String]) -> Opts {
    let mut tier = match std::env::var("VERIF_TIER").ok().as_deref() {
        Some("thorough") => Tier::Thorough,
        _ => Tier::Quick,
    };
    let mut seed = std::env::var("VERIF_SEED")
        .ok()
        .and_then(|s| s.trim().parse::<u64>().ok())
        .unwrap_or(simrng::DEFAULT_SEED);
    let mut jobs = std::thread::available_parallelism().map(|n| n.get()).unwrap_or(4);
    let mut runs = None;
    let mut dump_hashes = None;
    let mut write_evidence = true;
    let mut child_json = None;
    let mut stride = None;
    let mut wal = None;
    let mut i = 0;
    while i < args.len() {
        match args[i].as_str() {
            "--tier" => {
                i += 1;
                tier = if args[i] == "thorough" { Tier::Thorough } else { Tier::Quick };
            },
            "--seed" => {
                i += 1;
                seed = args[i].parse().expect("--seed N");
            },
            "--jobs" => {
                i += 1;
                jobs = args[i].parse().expect("--jobs J");
            },
            "--runs" => {
                i += 1;
                runs = Some(args[i].parse().expect("--runs N"));
            },
            "--dump-hashes" => {
                i += 1;
                dump_hashes = Some(PathBuf::from(&args[i]));
            },
            "--no-evidence" => write_evidence = false,
            "--stride" => {
                i += 1;
                let (k, j) = args[i].split_once('/').expect("--stride k/J");
                stride = Some((k.parse().unwrap(), j.parse().unwrap()));
            },
            "--wal" => {
                i += 1;
                wal = Some(PathBuf::from(&args[i]));
            },
            "--child-json" => {
                i += 1;
                child_json = Some(PathBuf::from(&args[i]));
            },
            "quick" => tier = Tier::Quick,
            "thorough" => tier = Tier::Thorough,
            other => {
                eprintln!("unknown argument {}", other);
                std::process::exit(2);
            },
        }
        i += 1;
    }
    let root = std::env::var("BPSIM_ROOT").map(PathBuf::from).unwrap_or_else(|_| PathBuf::from("/verif"));
    Opts {
        tier,
        seed,
        jobs,
        root,
        runs,
        dump_hashes,
        write_evidence,
        max_wall_s: if tier == Tier::Quick { 1_500 } else { 6 * 3600 },
        child_json,
        stride,
        wal,
        check_probes: runs.is_none(),
    }
}

fn replay_file<C: Check>(c: &C, f: &ReplayFile, path: &str) -> i32 {
    match runner::replay(c, f) {
        Some(v) => {
            println!("violation: invariant={} detail={}", v.invariant, v.detail);
            println!("VIOLATION property={} replay={}", c.id(), path);
            1
        },
        None => {
            println!("replay of {} did not reproduce invariant {}", path, f.invariant);
            0
        },
    }
}

/// Run the whole seeded batch of `check` in `opts.jobs` single-threaded child processes
/// (run i goes to child i mod J), each with a write-ahead file naming the run in progress.
fn in_children<C: Check>(check: &C, name: &str, opts: &Opts) -> Vec<runner::ExtraPhase> {
    let bin = std::env::current_exe().expect("current exe").to_string_lossy().to_string();
    let j = opts.jobs.max(1) as u64;
    let total = opts.runs.unwrap_or_else(|| check.runs(opts.tier));
    let phases = std::sync::Mutex::new(Vec::new());
    std::thread::scope(|sc| {
        for k in 0..j {
            let bin = bin.clone();
            let phases = &phases;
            sc.spawn(move || {
                let wal = std::env::temp_dir().join(format!("bpsim-wal-{}-{}-{}", name, std::process::id(), k));
                let _ = std::fs::remove_file(&wal);
                let a: Vec<String> = vec![
                    name.into(),
                    "--tier".into(),
                    opts.tier.name().into(),
                    "--seed".into(),
                    opts.seed.to_string(),
                    "--jobs".into(),
                    "1".into(),
                    "--runs".into(),
                    total.to_string(),
                    "--stride".into(),
                    format!("{}/{}", k, j),
                    "--wal".into(),
                    wal.to_string_lossy().to_string(),
                ];
                let mut ph = runner::child_phase(&format!("child_{}_of_{}", k, j), &bin, &a, &[]);
                if ph.error.is_some() && ph.info.get("abnormal_exit").is_some() {
                    // attribute the abort to the run named in the write-ahead file
                    if let Ok(txt) = std::fs::read_to_string(&wal) {
                        if let Ok(idx) = txt.trim().parse::<u64>() {
                            let mut rng = simrng::SimRng::for_run(opts.seed, check.id(), idx);
                            let scn = check.generate(&mut rng, opts.tier, idx);
                            ph.found.push((
                                runner::Violation::new(
                                    "process_aborted",
                                    format!("run {}", idx),
                                    format!("child process died ({}) while executing run {}", ph.info["abnormal_exit"], idx),
                                ),
                                serde_json::to_value(&scn).unwrap(),
                            ));
                            ph.error = None;
                        }
                    }
                }
                let _ = std::fs::remove_file(&wal);
                phases.lock().unwrap().push(ph);
            });
        }
    });
    let mut v = phases.into_inner().unwrap();
    v.sort_by(|a, b| a.name.cmp(&b.name));
    v
}

const RATES: [&str; 3] = ["0.01", "0.05", "0.2"];

fn miri_runs_c11(opts: &Opts) -> Vec<miri::MiriRun> {
    let n = if std::env::var("BPSIM_NO_MIRI").is_ok() { 0 } else if opts.tier == Tier::Quick { 32 } else { 3072 };
    (0..n)
        .map(|i| {
            let seed = (opts.seed % 1_000_000) * 10_000 + i;
            miri::MiriRun {
                args: vec!["statics-race".into(), (2 + i % 3).to_string(), (i / 3 % 3).to_string()],
                seed,
                preemption_rate: RATES[(i % 3) as usize].into(),
            }
        })
        .collect()
}

/// Proofs made natively (real Ristretto) for the Miri scenario in which threads concurrently decode
/// and verify over one shared parameter object: (proof hex, concatenated commitments hex) for an
/// aggregate of `m` commitments at `bits` bits.
fn native_proof_for_miri(seed: u64, bits: usize, m: usize) -> Option<(String, String)> {
    use curve25519_dalek::{ristretto::RistrettoPoint, scalar::Scalar};
    use group::Group;
    use tari_bulletproofs_plus::{commitment_opening::CommitmentOpening, range_witness::RangeWitness};
    let params = RistrettoPoint::params(bits, m, RistrettoPoint::pedersen(1)).ok()?;
    let mut cs = Vec::new();
    let mut ops = Vec::new();
    for j in 0..m {
        let blind = world::scalar_from_seed("miri-proof", seed, j as u64);
        let value = (seed.wrapping_add(j as u64)) % (1 << bits);
        cs.push(RistrettoPoint::commit(params.pc_gens(), &Scalar::from(value), &[blind]).ok()?);
        ops.push(CommitmentOpening::new(value, vec![blind]));
    }
    let w = RangeWitness::init(ops).ok()?;
    let st = RistrettoPoint::statement(params, cs.clone(), vec![None; m], None).ok()?;
    let mut t = merlin::Transcript::new(b"miri-sched");
    let mut rng = faultrng::FaultRng::new(faultrng::RngMode::Healthy(seed));
    let proof = RistrettoPoint::prove(&mut t, &st, &w, &mut rng).ok()?;
    let ch: String = cs.iter().map(|c| hex::encode(RistrettoPoint::enc(c))).collect();
    Some((hex::encode(RistrettoPoint::to_bytes(&proof)), ch))
}

fn miri_runs_c18(opts: &Opts) -> Vec<miri::MiriRun> {
    if std::env::var("BPSIM_NO_MIRI").is_ok() {
        return vec![];
    }
    let mut v = Vec::new();
    let base = (opts.seed % 1_000_000) * 10_000 + 5_000;
    let (n_table, n_race, n_full, n_verify) = if opts.tier == Tier::Quick { (4u64, 4u64, 0u64, 6u64) } else { (96, 96, 48, 96) };
    // the slow scenarios first so that the workers stay busy
    let corrupt = |p: &str| -> String {
        // flip the lowest bit of the first byte of r1 (degree byte, d1[0], A, A1, B precede it)
        let mut p = p.to_string();
        let off = 2 * (1 + 32 * 4);
        let b = u8::from_str_radix(&p[off..off + 2], 16).unwrap_or(0) ^ 1;
        p.replace_range(off..off + 2, &format!("{:02x}", b));
        p
    };
    if let (Some((p1, c1)), Some((p2, c2))) = (native_proof_for_miri(opts.seed, 2, 1), native_proof_for_miri(opts.seed ^ 7, 2, 2)) {
        for i in 0..n_verify {
            // variants: (a) capacity 1, every thread verifies the same single-commitment proof;
            // (b) capacity 4 shared by threads that verify aggregates of 1 and of 2 commitments;
            // one third of the runs hand one kind a corrupted copy (verdict Err)
            let reject = i % 3 == 2;
            // mixed aggregation over a capacity-4 object costs ~3.5 min of interpreter time per run and
            // is thorough-only; logical races of that kind are the cooperative scheduler's business
            let mixed = opts.tier == Tier::Thorough && i % 2 == 0;
            // capacity 4 lets two different aggregation factors both sit below the capacity (about
            // 3.5 min of interpreter time per run); quick keeps to two threads
            let (cap_mixed, threads) = if opts.tier == Tier::Quick { ("4", 2) } else { (if i % 4 == 2 { "2" } else { "4" }, 2 + (i / 2) % 2) };
            let mut args: Vec<String> = vec!["shared-verify".into(), threads.to_string(), "2".into(), if mixed { cap_mixed.into() } else { "1".into() }];
            args.extend([if reject { corrupt(&p1) } else { p1.clone() }, c1.clone(), if reject { "reject".into() } else { "accept".into() }]);
            if mixed {
                args.extend([p2.clone(), c2.clone(), "accept".to_string()]);
            }
            v.push(miri::MiriRun { args, seed: base + 3_000 + i, preemption_rate: RATES[(i % 3) as usize].into() });
        }
    }
    for i in 0..n_full {
        v.push(miri::MiriRun {
            args: vec!["shared-params".into(), (2 + i % 2).to_string(), "1".into()],
            seed: base + 2_000 + i,
            preemption_rate: RATES[(i % 3) as usize].into(),
        });
    }
    for i in 0..n_table {
        v.push(miri::MiriRun { args: vec!["shared-table".into(), (2 + i % 2).to_string()], seed: base + i, preemption_rate: RATES[(i % 3) as usize].into() });
    }
    for i in 0..n_race {
        v.push(miri::MiriRun {
            args: vec!["statics-race".into(), (2 + i % 3).to_string(), (i % 3).to_string()],
            seed: base + 1_000 + i,
            preemption_rate: RATES[(i % 3) as usize].into(),
        });
    }
    v
}

/// First use of the lazily initialised statics in different orders, each in a fresh process.
fn fresh_process_gens_phase() -> runner::ExtraPhase {
    let bin = std::env::current_exe().expect("current exe");
    let mut ph = runner::ExtraPhase { name: "fresh_process_first_use_orders".into(), ..Default::default() };
    let orders = ["1", "6", "3,1,6", "6,1", "2,5,4,3", "1,2,3,4,5,6", "6,5,4,3,2,1", "4,4,4"];
    let mut distinct = std::collections::BTreeSet::new();
    for o in orders {
        let out = std::process::Command::new(&bin).arg("gens-digest").arg(o).output();
        let Ok(out) = out else {
            ph.error = Some("cannot spawn fresh process".into());
            return ph;
        };
        let txt = String::from_utf8_lossy(&out.stdout).to_string();
        for l in txt.lines() {
            let mut it = l.split_whitespace();
            if it.next() != Some("GENS") {
                continue;
            }
            let ext: usize = it.next().and_then(|s| s.parse().ok()).unwrap_or(0);
            let got = it.next().unwrap_or("");
            ph.evaluations += 1;
            distinct.insert(format!("{}@{}", ext, o));
            if got != checks::c11::gens_digest_reference(ext) {
                ph.found.push((
                    runner::Violation::new(
                        "generator_differs_from_documented_derivation",
                        "fresh process",
                        format!("fresh process constructing Pedersen generators in order [{}]: generators of extension degree {} differ from the reference derivation", o, ext),
                    ),
                    serde_json::json!({"fresh_process_gens_order": o}),
                ));
            }
        }
        if !out.status.success() {
            ph.error = Some(format!("gens-digest {} exited with {:?}", o, out.status.code()));
        }
    }
    *ph.faults.entry("fresh_process_first_use_order".into()).or_insert(0) += orders.len() as u64;
    ph.distinct = distinct.len() as u64;
    ph.info = serde_json::json!({"orders": orders});
    ph
}

fn fresh_digest(group: &str, op: &checks::c18::Op) -> Option<String> {
    let bin = std::env::current_exe().ok()?;
    let out = std::process::Command::new(&bin)
        .arg("single-op")
        .arg(group)
        .arg(serde_json::to_string(op).ok()?)
        .output()
        .ok()?;
    String::from_utf8_lossy(&out.stdout).lines().find_map(|l| l.strip_prefix("DIGEST ").map(|s| s.to_string()))
}

/// A sample of operations is executed as the first library call of a fresh process.
fn fresh_process_ops_phase(opts: &Opts) -> runner::ExtraPhase {
    let mut ph = runner::ExtraPhase { name: "fresh_process_single_operations".into(), ..Default::default() };
    let c = checks::c18::C18;
    let n_scen = if opts.tier == Tier::Quick { 6 } else { 40 };
    let mut distinct = std::collections::BTreeSet::new();
    for idx in 0..n_scen {
        let mut rng = simrng::SimRng::for_run(opts.seed, "C18", idx);
        let sc = c.generate(&mut rng, opts.tier, idx);
        // the first two operations of the first two clients, plus every operation that uses
        // caller-supplied generators (first use of anything lazily initialised or remembered)
        let mut sample: Vec<&checks::c18::Op> = Vec::new();
        for client in sc.clients.iter().take(2) {
            sample.extend(client.iter().filter(|o| !matches!(o, checks::c18::Op::DropClones)).take(2));
        }
        for client in sc.clients.iter() {
            sample.extend(client.iter().filter(|o| matches!(o, checks::c18::Op::WithIdentityGenerator { .. })).take(2));
            sample.extend(client.iter().filter(|o| matches!(o, checks::c18::Op::UnderOwnGenerators { .. })).take(4));
        }
        sample.extend(near_twin_pairs(&sc));
        {
            for op in sample {
                free::reset_run_state();
                let want = checks::c18::in_process_digest(&sc.group, op);
                let got = fresh_digest(&sc.group, op);
                ph.evaluations += 1;
                distinct.insert(want.clone());
                match got {
                    None => ph.error = Some("fresh process produced no digest".into()),
                    Some(g) if g != want => ph.found.push((
                        runner::Violation::new(
                            "result_differs_in_fresh_process",
                            "fresh process",
                            format!("operation {:?}: {} in this process but {} as the first library call of a fresh process", format!("{:?}", op).chars().take(120).collect::<String>(), want, g),
                        ),
                        serde_json::json!({"single_op": op, "group": sc.group, "in_process_digest": want}),
                    )),
                    _ => {},
                }
            }
        }
    }
    // near-twin pairs (a batch and a copy with one bit of one point encoding changed, verified one after the
    // other in this process): scan further scenarios until enough of them were compared
    let want_pairs = if opts.tier == Tier::Quick { 10 } else { 80 };
    let mut pairs = 0u64;
    let mut idx = n_scen;
    while pairs < want_pairs && idx < n_scen + 4000 {
        let mut rng = simrng::SimRng::for_run(opts.seed, "C18", idx);
        let sc = c.generate(&mut rng, opts.tier, idx);
        idx += 1;
        let ops = near_twin_pairs(&sc);
        if ops.is_empty() {
            continue;
        }
        pairs += (ops.len() / 2) as u64;
        for op in ops {
            free::reset_run_state();
            let want = checks::c18::in_process_digest(&sc.group, op);
            let got = fresh_digest(&sc.group, op);
            ph.evaluations += 1;
            distinct.insert(want.clone());
            match got {
                None => ph.error = Some("fresh process produced no digest".into()),
                Some(g) if g != want => ph.found.push((
                    runner::Violation::new(
                        "result_differs_in_fresh_process",
                        "fresh process near twin",
                        format!("operation {:?}: {} in this process (next to a near twin of its proof) but {} as the first library call of a fresh process", format!("{:?}", op).chars().take(120).collect::<String>(), want, g),
                    ),
                    serde_json::json!({"single_op": op, "group": sc.group, "in_process_digest": want}),
                )),
                _ => {},
            }
        }
    }
    *ph.faults.entry("near_twin_pair_in_one_process".into()).or_insert(0) += pairs;
    *ph.faults.entry("fresh_process_baseline".into()).or_insert(0) += ph.evaluations;
    ph.distinct = distinct.len() as u64;
    ph
}

/// Consecutive operations of one client that verify a batch and a near twin of it (either order).
fn near_twin_pairs(sc: &checks::c18::Scenario) -> Vec<&checks::c18::Op> {
    use checks::c18::Op;
    let mut v = Vec::new();
    for client in sc.clients.iter() {
        for w in client.windows(2) {
            if let (Op::Verify { members: m1, corrupt: c1, corrupt_kind: k1, .. }, Op::Verify { members: m2, corrupt: c2, corrupt_kind: k2, .. }) = (&w[0], &w[1]) {
                let twin = |c: &Option<usize>, k: u8| c.is_some() && k >= 3;
                let same = serde_json::to_string(m1).ok() == serde_json::to_string(m2).ok();
                if same && ((twin(c1, *k1) && c2.is_none()) || (c1.is_none() && twin(c2, *k2))) {
                    v.push(&w[0]);
                    v.push(&w[1]);
                }
            }
        }
    }
    v
}

fn main() {
    let args: Vec<String> = std::env::args().skip(1).collect();
    if args.is_empty() {
        eprintln!("usage: bpsim <check|replay|selftest> ...");
        std::process::exit(2);
    }
    world::install_quiet_panic_hook();
    let cmd = args[0].as_str();
    let code = match cmd {
        "replay" => {
            let path = &args[1];
            let f: ReplayFile =
                serde_json::from_str(&std::fs::read_to_string(path).expect("read replay file")).expect("replay parses");
            if let Some(m) = f.scenario.get("miri") {
                // a schedule found by Miri: re-run the same scenario under the same seed
                let run: miri::MiriRun = serde_json::from_value(m.clone()).expect("miri run parses");
                let root = std::env::var("BPSIM_ROOT").map(PathBuf::from).unwrap_or_else(|_| PathBuf::from("/verif"));
                let o = miri::run_miri(&root, &run);
                match miri::violation_of(&run, &o) {
                    Some(v) => {
                        println!("violation: invariant={} detail={}", v.invariant, v.detail);
                        println!("VIOLATION property={} replay={}", f.property, path);
                        std::process::exit(1);
                    },
                    None => {
                        println!("replay of {} did not reproduce ({:?})", path, o);
                        std::process::exit(if matches!(o, miri::MiriOutcome::HarnessError { .. }) { 2 } else { 0 });
                    },
                }
            }
            if let Some(op) = f.scenario.get("single_op") {
                let group = f.scenario["group"].as_str().unwrap_or("ristretto").to_string();
                let opv: checks::c18::Op = serde_json::from_value(op.clone()).expect("op parses");
                let fresh = fresh_digest(&group, &opv);
                let here = checks::c18::in_process_digest(&group, &opv);
                let want = f.scenario["in_process_digest"].as_str().unwrap_or("").to_string();
                println!("fresh process: {:?}; this process: {}; recorded in-process digest: {}", fresh, here, want);
                if fresh.as_deref() != Some(want.as_str()) {
                    println!("VIOLATION property={} replay={}", f.property, path);
                    std::process::exit(1);
                }
                std::process::exit(0);
            }
            macro_rules! rp {
                ($($id:literal => $c:expr),* $(,)?) => {
                    match f.property.as_str() {
                        $($id => replay_file(&$c, &f, path),)*
                        other => {
                            eprintln!("no replay handler for {}", other);
                            2
                        },
                    }
                };
            }
            rp! {
                "C01" => checks::c01::C01,
                "C03" => checks::c03::C03,
                "C20" => checks::c20::C20,
                "C05" => checks::c05::C05,
                "C16" => checks::c16::C16,
                "C13" => checks::c13::C13,
                "C14" => checks::c14::C14,
                "C02" => checks::c02::C02,
                "C11" => checks::c11::C11,
                "C18" => checks::c18::C18,
                "C04" => checks::c04::C04,
                "C08" => checks::c08::C08,
                "C12" => checks::c12::C12,
            }
        },
        "C01" => drive(&checks::c01::C01, &parse_opts(&args[1..]), vec![]),
        "C03" => drive(&checks::c03::C03, &parse_opts(&args[1..]), vec![]),
        "C05" => drive(&checks::c05::C05, &parse_opts(&args[1..]), vec![]),
        "C13" => drive(&checks::c13::C13, &parse_opts(&args[1..]), vec![]),
        "C02" => drive(&checks::c02::C02, &parse_opts(&args[1..]), vec![]),
        "C04" => drive(&checks::c04::C04, &parse_opts(&args[1..]), vec![]),
        "C08" => drive(&checks::c08::C08, &parse_opts(&args[1..]), vec![]),
        "C12" => drive(&checks::c12::C12, &parse_opts(&args[1..]), vec![]),
        "C14" => drive(&checks::c14::C14, &parse_opts(&args[1..]), vec![]),
        "gens-digest" => checks::c11::gens_digest_cli(args.get(1).map(|s| s.as_str()).unwrap_or("1")),
        "single-op" => checks::c18::single_op_cli(&args[1], &args[2]),
        "C11" => {
            let opts = parse_opts(&args[1..]);
            let mut extra = vec![fresh_process_gens_phase()];
            extra.push(miri::miri_phase("miri_statics_race", &opts.root, miri_runs_c11(&opts), opts.jobs));
            drive(&checks::c11::C11, &opts, extra)
        },
        "C18" => {
            let opts = parse_opts(&args[1..]);
            let mut extra = vec![fresh_process_ops_phase(&opts)];
            extra.push(miri::miri_phase("miri_threads", &opts.root, miri_runs_c18(&opts), opts.jobs));
            drive(&checks::c18::C18, &opts, extra)
        },
        "C16" => {
            let opts = parse_opts(&args[1..]);
            if opts.child_json.is_some() {
                drive(&checks::c16::C16, &opts, vec![])
            } else {
                // every run executes in a child process so that an abort is attributed to a run
                let phases = in_children(&checks::c16::C16, "C16", &opts);
                let mut o = opts.clone();
                o.runs = Some(16); // a small in-process batch supplies the evidence samples
                drive(&checks::c16::C16, &o, phases)
            }
        },
        "C20" => {
            let opts = parse_opts(&args[1..]);
            let mut extra = vec![];
            if opts.child_json.is_none() {
                // second configuration: the other build profile of the library
                if let Ok(bin) = std::env::var("BPSIM_OTHER_BIN") {
                    let other = std::env::var("BPSIM_OTHER_PROFILE").unwrap_or_else(|_| "release".into());
                    let mut a: Vec<String> = vec!["C20".into(), "--tier".into(), opts.tier.name().into(), "--seed".into(), opts.seed.to_string(), "--jobs".into(), opts.jobs.to_string()];
                    if let Some(r) = opts.runs {
                        a.push("--runs".into());
                        a.push(r.to_string());
                    }
                    extra.push(runner::child_phase(&format!("profile_{}", other), &bin, &a, &[("BPSIM_PROFILE", other.as_str())]));
                } else {
                    extra.push(runner::ExtraPhase {
                        name: "profile_other".into(),
                        error: Some("BPSIM_OTHER_BIN not set: run C20 through ./bpsim.sh so that both build profiles are exercised".into()),
                        ..Default::default()
                    });
                }
            }
            drive(&checks::c20::C20, &opts, extra)
        },
        other => {
            eprintln!("unknown command {}", other);
            2
        },
    };
    std::process::exit(code);
}
