//! `Group`: one interface over the two instantiations of the library the simulator drives —
//! real Ristretto (dalek) and the simulator-owned free module. The wrappers exist because the
//! library's `impl` blocks carry higher-ranked bounds that cannot be named as supertraits.

use std::fmt::Debug;

use curve25519_dalek::{
    ristretto::{CompressedRistretto, RistrettoPoint},
    scalar::Scalar,
    traits::{Identity, MultiscalarMul},
};
use merlin::Transcript;
use tari_bulletproofs_plus::{
    errors::ProofError,
    extended_mask::ExtendedMask,
    generators::pedersen_gens::{ExtensionDegree, PedersenGens},
    protocols::curve_point_protocol::CurvePointProtocol,
    range_parameters::RangeParameters,
    range_proof::{RangeProof, VerifyAction},
    range_statement::RangeStatement,
    range_witness::RangeWitness,
    traits::{Compressable, Decompressable, FixedBytesRepr, Precomputable},
};

use crate::{
    faultrng::FaultRng,
    free::{FreeCompressed, FreePoint},
    simrng::SimRng,
};

pub fn ext_degree(ext: usize) -> ExtensionDegree {
    use std::convert::TryFrom;
    ExtensionDegree::try_from(ext).expect("ext in 1..=6")
}

pub trait Group:
    CurvePointProtocol + Precomputable + MultiscalarMul<Point = Self> + Identity + Clone + PartialEq + Debug + 'static
{
    const NAME: &'static str;
    const IS_FREE: bool;

    /// The standard extended Pedersen generators for this group.
    fn pedersen(ext: usize) -> PedersenGens<Self>;
    fn params(bits: usize, cap: usize, pc: PedersenGens<Self>) -> Result<RangeParameters<Self>, ProofError>;
    fn commit(pc: &PedersenGens<Self>, v: &Scalar, r: &[Scalar]) -> Result<Self, ProofError>;
    fn statement(
        params: RangeParameters<Self>,
        commitments: Vec<Self>,
        promises: Vec<Option<u64>>,
        seed: Option<Scalar>,
    ) -> Result<RangeStatement<Self>, ProofError>;
    fn prove(
        tr: &mut Transcript,
        st: &RangeStatement<Self>,
        w: &RangeWitness,
        rng: &mut FaultRng,
    ) -> Result<RangeProof<Self>, ProofError>;
    fn verify(
        trs: &mut [Transcript],
        sts: &[RangeStatement<Self>],
        proofs: &[RangeProof<Self>],
        action: VerifyAction,
    ) -> Result<Vec<Option<ExtendedMask>>, ProofError>;
    fn to_bytes(p: &RangeProof<Self>) -> Vec<u8>;
    fn from_bytes(b: &[u8]) -> Result<RangeProof<Self>, ProofError>;

    /// 32-byte handle of a point (registers it where the group needs that).
    fn enc(p: &Self) -> [u8; 32];
    /// decode a handle
    fn dec(b: &[u8; 32]) -> Option<Self>;
    /// A fresh decodable, non-identity point unrelated to everything else.
    fn random_point(rng: &mut SimRng) -> Self;
    /// 32 bytes that do not decode to a point.
    fn undecodable(rng: &mut SimRng) -> [u8; 32];
    fn scale(p: &Self, s: &Scalar) -> Self;
    fn sum(a: &Self, b: &Self) -> Self;
    /// bytes of a compressed handle
    fn c_bytes(c: &<Self as Compressable>::Compressed) -> [u8; 32];
    /// a compressed handle from raw bytes (not necessarily decodable)
    fn c_from(b: [u8; 32]) -> <Self as Compressable>::Compressed;
    /// the proof's serde form through bincode
    fn serde_out(p: &RangeProof<Self>) -> Result<Vec<u8>, String>;
    fn serde_in(b: &[u8]) -> Result<RangeProof<Self>, String>;
    /// extension degree announced by proof bytes
    fn ext_from_bytes(b: &[u8]) -> Result<usize, ProofError>;
    /// extension degree a proof object reports
    fn ext_of(p: &RangeProof<Self>) -> usize;
}

impl Group for RistrettoPoint {
    const IS_FREE: bool = false;
    const NAME: &'static str = "ristretto";

    fn pedersen(ext: usize) -> PedersenGens<Self> {
        tari_bulletproofs_plus::ristretto::create_pedersen_gens_with_extension_degree(ext_degree(ext))
    }

    fn params(bits: usize, cap: usize, pc: PedersenGens<Self>) -> Result<RangeParameters<Self>, ProofError> {
        RangeParameters::init(bits, cap, pc)
    }

    fn commit(pc: &PedersenGens<Self>, v: &Scalar, r: &[Scalar]) -> Result<Self, ProofError> {
        pc.commit(v, r)
    }

    fn statement(
        params: RangeParameters<Self>,
        commitments: Vec<Self>,
        promises: Vec<Option<u64>>,
        seed: Option<Scalar>,
    ) -> Result<RangeStatement<Self>, ProofError> {
        RangeStatement::init(params, commitments, promises, seed)
    }

    fn prove(
        tr: &mut Transcript,
        st: &RangeStatement<Self>,
        w: &RangeWitness,
        rng: &mut FaultRng,
    ) -> Result<RangeProof<Self>, ProofError> {
        if crate::faultrng::via_handle() {
            let _installed = crate::faultrng::HandleInstalled::install(rng);
            RangeProof::prove_with_rng(tr, st, w, &mut crate::faultrng::HandleRng)
        } else {
            RangeProof::prove_with_rng(tr, st, w, rng)
        }
    }

    fn verify(
        trs: &mut [Transcript],
        sts: &[RangeStatement<Self>],
        proofs: &[RangeProof<Self>],
        action: VerifyAction,
    ) -> Result<Vec<Option<ExtendedMask>>, ProofError> {
        RangeProof::verify_batch(trs, sts, proofs, action)
    }

    fn to_bytes(p: &RangeProof<Self>) -> Vec<u8> {
        p.to_bytes()
    }

    fn from_bytes(b: &[u8]) -> Result<RangeProof<Self>, ProofError> {
        RangeProof::from_bytes(b)
    }

    fn enc(p: &Self) -> [u8; 32] {
        p.compress().to_bytes()
    }

    fn dec(b: &[u8; 32]) -> Option<Self> {
        CompressedRistretto(*b).decompress()
    }

    fn random_point(rng: &mut SimRng) -> Self {
        let mut b = [0u8; 64];
        rng.fill(&mut b);
        RistrettoPoint::from_uniform_bytes(&b)
    }

    fn undecodable(rng: &mut SimRng) -> [u8; 32] {
        loop {
            let b = rng.bytes32();
            if CompressedRistretto(b).decompress().is_none() {
                return b;
            }
        }
    }

    fn scale(p: &Self, s: &Scalar) -> Self {
        p * s
    }

    fn sum(a: &Self, b: &Self) -> Self {
        a + b
    }

    fn c_bytes(c: &<Self as Compressable>::Compressed) -> [u8; 32] {
        *c.as_fixed_bytes()
    }

    fn c_from(b: [u8; 32]) -> <Self as Compressable>::Compressed {
        <<Self as Compressable>::Compressed as FixedBytesRepr>::from_fixed_bytes(b)
    }

    fn serde_out(p: &RangeProof<Self>) -> Result<Vec<u8>, String> {
        bincode::serialize(p).map_err(|e| e.to_string())
    }

    fn serde_in(b: &[u8]) -> Result<RangeProof<Self>, String> {
        bincode::deserialize(b).map_err(|e| e.to_string())
    }

    fn ext_from_bytes(b: &[u8]) -> Result<usize, ProofError> {
        RangeProof::<Self>::extension_degree_from_proof_bytes(b).map(|e| e as usize)
    }

    fn ext_of(p: &RangeProof<Self>) -> usize {
        p.extension_degree() as usize
    }
}

/// Pedersen generators over the free module, derived with the same labels and the same library
/// code path (`hash_from_bytes_sha3_512`) as the Ristretto ones; `H` is its own basis element.
pub fn free_pedersen(ext: usize) -> PedersenGens<FreePoint> {
    let h = FreePoint::hash_from_bytes_sha3_512(b"bpsim.free.H");
    let g: Vec<FreePoint> = (1..=ext)
        .map(|i| FreePoint::hash_from_bytes_sha3_512(format!("RISTRETTO_MASKING_BASEPOINT_{}", i).as_bytes()))
        .collect();
    PedersenGens {
        h_base_compressed: h.compress(),
        h_base: h,
        g_base_compressed_vec: g.iter().map(|p| p.compress()).collect(),
        g_base_vec: g,
        extension_degree: ext_degree(ext),
    }
}

impl Group for FreePoint {
    const IS_FREE: bool = true;
    const NAME: &'static str = "free";

    fn pedersen(ext: usize) -> PedersenGens<Self> {
        free_pedersen(ext)
    }

    fn params(bits: usize, cap: usize, pc: PedersenGens<Self>) -> Result<RangeParameters<Self>, ProofError> {
        RangeParameters::init(bits, cap, pc)
    }

    fn commit(pc: &PedersenGens<Self>, v: &Scalar, r: &[Scalar]) -> Result<Self, ProofError> {
        pc.commit(v, r)
    }

    fn statement(
        params: RangeParameters<Self>,
        commitments: Vec<Self>,
        promises: Vec<Option<u64>>,
        seed: Option<Scalar>,
    ) -> Result<RangeStatement<Self>, ProofError> {
        RangeStatement::init(params, commitments, promises, seed)
    }

    fn prove(
        tr: &mut Transcript,
        st: &RangeStatement<Self>,
        w: &RangeWitness,
        rng: &mut FaultRng,
    ) -> Result<RangeProof<Self>, ProofError> {
        if crate::faultrng::via_handle() {
            let _installed = crate::faultrng::HandleInstalled::install(rng);
            RangeProof::prove_with_rng(tr, st, w, &mut crate::faultrng::HandleRng)
        } else {
            RangeProof::prove_with_rng(tr, st, w, rng)
        }
    }

    fn verify(
        trs: &mut [Transcript],
        sts: &[RangeStatement<Self>],
        proofs: &[RangeProof<Self>],
        action: VerifyAction,
    ) -> Result<Vec<Option<ExtendedMask>>, ProofError> {
        RangeProof::verify_batch(trs, sts, proofs, action)
    }

    fn to_bytes(p: &RangeProof<Self>) -> Vec<u8> {
        p.to_bytes()
    }

    fn from_bytes(b: &[u8]) -> Result<RangeProof<Self>, ProofError> {
        RangeProof::from_bytes(b)
    }

    fn enc(p: &Self) -> [u8; 32] {
        *p.compress().as_fixed_bytes()
    }

    fn dec(b: &[u8; 32]) -> Option<Self> {
        FreeCompressed(*b).decompress()
    }

    fn random_point(rng: &mut SimRng) -> Self {
        FreePoint::basis(rng.next_u64() | 1 << 63)
    }

    fn undecodable(rng: &mut SimRng) -> [u8; 32] {
        loop {
            let b = rng.bytes32();
            if FreeCompressed(b).lookup().is_none() {
                return b;
            }
        }
    }

    fn scale(p: &Self, s: &Scalar) -> Self {
        p.scaled(s)
    }

    fn sum(a: &Self, b: &Self) -> Self {
        a + b
    }

    fn c_bytes(c: &<Self as Compressable>::Compressed) -> [u8; 32] {
        *c.as_fixed_bytes()
    }

    fn c_from(b: [u8; 32]) -> <Self as Compressable>::Compressed {
        <<Self as Compressable>::Compressed as FixedBytesRepr>::from_fixed_bytes(b)
    }

    fn serde_out(p: &RangeProof<Self>) -> Result<Vec<u8>, String> {
        bincode::serialize(p).map_err(|e| e.to_string())
    }

    fn serde_in(b: &[u8]) -> Result<RangeProof<Self>, String> {
        bincode::deserialize(b).map_err(|e| e.to_string())
    }

    fn ext_from_bytes(b: &[u8]) -> Result<usize, ProofError> {
        RangeProof::<Self>::extension_degree_from_proof_bytes(b).map(|e| e as usize)
    }

    fn ext_of(p: &RangeProof<Self>) -> usize {
        p.extension_degree() as usize
    }
}
