//! C14 — prover randomness is hedged against failure of the external RNG (the central
//! fault-injection check). Paired prover runs receive the SAME faulty stream — the worst case —
//! and must still share no RNG-derived nonce unless they are identical runs; and no such nonce
//! may be computable from the public transcript plus the (known) faulty stream.

use std::collections::HashMap;

use curve25519_dalek::scalar::Scalar;
use merlin::{tap::Event, Transcript};
use rand_core::{CryptoRng, RngCore};
use serde::{Deserialize, Serialize};
use serde_json::Value;
use tari_bulletproofs_plus::{generators::pedersen_gens::PedersenGens, range_parameters::RangeParameters};

use crate::{
    checks::c01::gen_rng_mode,
    faultrng::RngMode,
    free::FreePoint,
    group::{free_pedersen, Group},
    observe::*,
    runner::{Check, RunStats, Tier, Violation},
    simrng::SimRng,
    world::*,
};

#[derive(Clone, Debug, Serialize, Deserialize, PartialEq, Eq)]
pub enum Pair {
    /// the very same run twice
    Identical,
    /// opening j: blindings (r_0, r_1) vs (r_0 + d, r_1 - d) under G_0 = G_1: same commitment,
    /// identical public transcript, different witness
    BlindingShift {
        j: usize,
        /// the two blinding positions whose generators are merged (default 0 and 1)
        #[serde(default)]
        a: usize,
        #[serde(default = "one")]
        b: usize,
    },
    /// as BlindingShift, but the witness is assembled through the public fields of `RangeWitness` and
    /// its first opening carries only `short` blinding factors; the shifted positions of opening j >= 1
    /// lie at or beyond `short`
    RaggedShift { j: usize, a: usize, b: usize, short: usize },
    /// opening j: (v, r_0) vs (v + 1, r_0 - 1) under H = G_0: same commitment, different value
    ValueTrade { j: usize },
    Context,
    /// promise j differs (both valid)
    Promise { j: usize },
    /// promise j is replaced by this (valid) promise in the second run; used for boundary pairs such
    /// as absent vs u64::MAX at 64 bits
    PromiseTo { j: usize, to: Option<u64> },
    /// the promises of openings j and j2 are exchanged (both runs valid): same promise values, other positions
    PromiseSwap { j: usize, j2: usize },
    /// opening j has different blindings, hence a different commitment
    Commitment { j: usize },
    /// the statement is proved at a different bit length
    Bits,
}

fn one() -> usize {
    1
}

#[derive(Clone, Debug, Serialize, Deserialize)]
pub struct Scenario {
    pub cfg: Config,
    pub wit: WitnessSpec,
    pub ctx: Context,
    pub mode: RngMode,
    pub pair: Pair,
}

pub struct C14;

struct Side {
    params: RangeParameters<FreePoint>,
    built: Built<FreePoint>,
    ctx: Context,
}

fn degenerate_pc(ext: usize, merge: Option<(usize, usize)>, h_is_g0: bool) -> PedersenGens<FreePoint> {
    let mut pc = free_pedersen(ext);
    if let Some((a, b)) = merge {
        if a < ext && b < ext && a != b {
            pc.g_base_vec[b] = pc.g_base_vec[a].clone();
            pc.g_base_compressed_vec[b] = pc.g_base_compressed_vec[a];
        }
    }
    if h_is_g0 {
        pc.h_base = pc.g_base_vec[0].clone();
        pc.h_base_compressed = pc.g_base_compressed_vec[0];
    }
    pc
}

/// A witness spec with explicit per-opening overrides is needed for the shifted pairs; the
/// overrides are applied on top of the seed-derived blindings.
fn build_side(
    cfg: &Config,
    wit: &WitnessSpec,
    ctx: &Context,
    pc: PedersenGens<FreePoint>,
    adjust: impl Fn(usize, &mut u64, &mut Vec<Scalar>),
) -> Side {
    build_side_with(cfg, wit, ctx, pc, adjust, None)
}

fn build_side_with(
    cfg: &Config,
    wit: &WitnessSpec,
    ctx: &Context,
    pc: PedersenGens<FreePoint>,
    adjust: impl Fn(usize, &mut u64, &mut Vec<Scalar>),
    short0: Option<usize>,
) -> Side {
    use tari_bulletproofs_plus::{commitment_opening::CommitmentOpening, range_witness::RangeWitness};
    let params = custom_params::<FreePoint>(cfg.bits, cfg.cap, pc);
    let mut commitments = Vec::new();
    let mut openings = Vec::new();
    for j in 0..cfg.m {
        let mut v = wit.values[j];
        let mut r = wit.blindings(j, cfg.ext);
        adjust(j, &mut v, &mut r);
        if let (0, Some(s)) = (j, short0) {
            r.truncate(s.max(1));
        }
        commitments.push(FreePoint::commit(params.pc_gens(), &Scalar::from(v), &r).expect("commit"));
        openings.push(CommitmentOpening::new(v, r));
    }
    let witness = if short0.is_some() {
        // the constructor insists on uniform openings; the fields are public
        let mut w = RangeWitness::init(vec![CommitmentOpening::new(0, vec![Scalar::ZERO; cfg.ext])]).expect("witness");
        w.openings = openings;
        w
    } else {
        RangeWitness::init(openings).expect("witness")
    };
    let statement = FreePoint::statement(params.clone(), commitments.clone(), wit.promises.clone(), wit.seed()).expect("statement");
    let public_statement = FreePoint::statement(params.clone(), commitments.clone(), wit.promises.clone(), None).expect("statement");
    Side {
        params: params.clone(),
        built: Built { params, commitments, statement, public_statement, witness },
        ctx: ctx.clone(),
    }
}

fn sides(sc: &Scenario) -> Option<(Side, Side)> {
    let cfg = &sc.cfg;
    let w = &sc.wit;
    let none = |_: usize, _: &mut u64, _: &mut Vec<Scalar>| {};
    match &sc.pair {
        Pair::Identical => Some((
            build_side(cfg, w, &sc.ctx, free_pedersen(cfg.ext), none),
            build_side(cfg, w, &sc.ctx, free_pedersen(cfg.ext), none),
        )),
        Pair::BlindingShift { j, a, b } => {
            if cfg.ext < 2 {
                return None;
            }
            let (ka, kb) = (*a % cfg.ext, *b % cfg.ext);
            let (ka, kb) = if ka == kb { (0, 1) } else { (ka, kb) };
            let jj = *j % cfg.m;
            let delta = scalar_from_seed("c14delta", w.blind_seed, 1);
            let sa = build_side(cfg, w, &sc.ctx, degenerate_pc(cfg.ext, Some((ka, kb)), false), none);
            let sb = build_side(cfg, w, &sc.ctx, degenerate_pc(cfg.ext, Some((ka, kb)), false), move |j, _v, r| {
                if j == jj {
                    r[ka] += delta;
                    r[kb] -= delta;
                }
            });
            Some((sa, sb))
        },
        Pair::RaggedShift { j, a, b, short } => {
            if cfg.ext < 3 || cfg.m < 2 {
                return None;
            }
            let short = (*short).clamp(1, cfg.ext - 2);
            let span = cfg.ext - short;
            let (ka, kb) = (short + *a % span, short + *b % span);
            let (ka, kb) = if ka == kb { (cfg.ext - 2, cfg.ext - 1) } else { (ka, kb) };
            let jj = 1 + *j % (cfg.m - 1);
            let delta = scalar_from_seed("c14delta", w.blind_seed, 3);
            let sa = build_side_with(cfg, w, &sc.ctx, degenerate_pc(cfg.ext, Some((ka, kb)), false), none, Some(short));
            let sb = build_side_with(
                cfg,
                w,
                &sc.ctx,
                degenerate_pc(cfg.ext, Some((ka, kb)), false),
                move |j, _v, r| {
                    if j == jj {
                        r[ka] += delta;
                        r[kb] -= delta;
                    }
                },
                Some(short),
            );
            Some((sa, sb))
        },
        Pair::ValueTrade { j } => {
            let jj = *j % cfg.m;
            let max: u64 = if cfg.bits == 64 { u64::MAX } else { (1u64 << cfg.bits) - 1 };
            // v + 1 must stay in range (value - promise < 2^bits as well)
            if w.values[jj] >= max {
                return None;
            }
            let a = build_side(cfg, w, &sc.ctx, degenerate_pc(cfg.ext, None, true), none);
            let b = build_side(cfg, w, &sc.ctx, degenerate_pc(cfg.ext, None, true), move |j, v, r| {
                if j == jj {
                    *v += 1;
                    r[0] -= Scalar::ONE;
                }
            });
            Some((a, b))
        },
        Pair::Context => {
            let mut aux = SimRng::new(w.blind_seed ^ 0xC14);
            let other = sc.ctx.other(&mut aux);
            Some((
                build_side(cfg, w, &sc.ctx, free_pedersen(cfg.ext), none),
                build_side(cfg, w, &other, free_pedersen(cfg.ext), none),
            ))
        },
        Pair::Promise { j } => {
            let jj = *j % cfg.m;
            let mut w2 = w.clone();
            let cur = w.promises[jj].unwrap_or(0);
            let new = if cur > 0 { cur - 1 } else if w.values[jj] > 0 { 1 } else { return None };
            w2.promises[jj] = Some(new);
            Some((
                build_side(cfg, w, &sc.ctx, free_pedersen(cfg.ext), none),
                build_side(cfg, &w2, &sc.ctx, free_pedersen(cfg.ext), none),
            ))
        },
        Pair::PromiseSwap { j, j2 } => {
            let (a, b) = (*j % cfg.m, *j2 % cfg.m);
            let (pa, pb) = (w.promises[a].unwrap_or(0), w.promises[b].unwrap_or(0));
            if a == b || pa == pb || pa > w.values[b] || pb > w.values[a] {
                return None;
            }
            let mut w2 = w.clone();
            w2.promises.swap(a, b);
            Some((
                build_side(cfg, w, &sc.ctx, free_pedersen(cfg.ext), none),
                build_side(cfg, &w2, &sc.ctx, free_pedersen(cfg.ext), none),
            ))
        },
        Pair::PromiseTo { j, to } => {
            let jj = *j % cfg.m;
            if to.unwrap_or(0) > w.values[jj] || to.unwrap_or(0) == w.promises[jj].unwrap_or(0) {
                return None;
            }
            let mut w2 = w.clone();
            w2.promises[jj] = *to;
            Some((
                build_side(cfg, w, &sc.ctx, free_pedersen(cfg.ext), none),
                build_side(cfg, &w2, &sc.ctx, free_pedersen(cfg.ext), none),
            ))
        },
        Pair::Commitment { j } => {
            let jj = *j % cfg.m;
            let delta = scalar_from_seed("c14delta", w.blind_seed, 2);
            let k = cfg.ext - 1;
            Some((
                build_side(cfg, w, &sc.ctx, free_pedersen(cfg.ext), none),
                build_side(cfg, w, &sc.ctx, free_pedersen(cfg.ext), move |j, _v, r| {
                    if j == jj {
                        r[k] += delta;
                    }
                }),
            ))
        },
        Pair::Bits => {
            let nb = if cfg.bits == 64 { 32 } else { cfg.bits * 2 };
            let lim = cfg.bits.min(nb);
            let max: u64 = if lim == 64 { u64::MAX } else { (1u64 << lim) - 1 };
            if w.values.iter().any(|v| *v > max) {
                return None;
            }
            let cfg2 = Config { bits: nb, ..*cfg };
            Some((
                build_side(cfg, w, &sc.ctx, free_pedersen(cfg.ext), none),
                build_side(&cfg2, w, &sc.ctx, free_pedersen(cfg.ext), none),
            ))
        },
    }
}

/// RNG-derived observables of one proof, per clean axis.
fn observables(obs: &ProverObs, params: &RangeParameters<FreePoint>, seeded: bool) -> Vec<(String, Scalar)> {
    let mut v = Vec::new();
    let h_id = params.h_base().as_basis().unwrap();
    let gi0 = params.gi_base_iter().next().unwrap().as_basis().unwrap();
    let hi0 = params.hi_base_iter().next().unwrap().as_basis().unwrap();
    if !seeded {
        let mut seen = Vec::new();
        for g in params.g_bases() {
            let id = g.as_basis().unwrap();
            if id == h_id || id == gi0 || id == hi0 || seen.contains(&id) {
                continue;
            }
            seen.push(id);
            let ax = seen.len() - 1;
            v.push((format!("A@axis{}", ax), obs.a.coeff(id)));
            for (j, p) in obs.l.iter().enumerate() {
                v.push((format!("L[{}]@axis{}", j, ax), p.coeff(id)));
            }
            for (j, p) in obs.r.iter().enumerate() {
                v.push((format!("R[{}]@axis{}", j, ax), p.coeff(id)));
            }
            v.push((format!("A1@axis{}", ax), obs.a1.coeff(id)));
            v.push((format!("B@axis{}", ax), obs.b.coeff(id)));
        }
    }
    v.push(("r".into(), obs.nonces.r));
    v.push(("s".into(), obs.nonces.s));
    v
}

struct FixedBlock([u8; 32]);
impl RngCore for FixedBlock {
    fn next_u32(&mut self) -> u32 {
        0
    }

    fn next_u64(&mut self) -> u64 {
        0
    }

    fn fill_bytes(&mut self, dest: &mut [u8]) {
        for (i, b) in dest.iter_mut().enumerate() {
            *b = self.0[i % 32];
        }
    }

    fn try_fill_bytes(&mut self, dest: &mut [u8]) -> Result<(), rand_core::Error> {
        self.fill_bytes(dest);
        Ok(())
    }
}
impl CryptoRng for FixedBlock {}

/// Everything an outsider who knows the public transcript and the faulty stream can compute at
/// each point where the prover rebuilt its RNG: transcript RNG WITHOUT the witness rekeying.
fn public_candidates(obs: &ProverObs, draws: usize) -> Result<Vec<(usize, Scalar)>, ObsError> {
    let mut t: Option<Transcript> = None;
    let mut skip_dom_sep = false;
    let mut cands = Vec::new();
    let mut point = 0usize;
    for e in &obs.view.events {
        match e {
            Event::New { label, .. } => {
                t = Some(Transcript::new(label));
                skip_dom_sep = true;
            },
            Event::Append { label, msg, .. } => {
                if skip_dom_sep {
                    skip_dom_sep = false;
                    continue;
                }
                t.as_mut().ok_or_else(|| ObsError("append before new".into()))?.append_message(label, msg);
            },
            Event::Challenge { label, out, .. } => {
                let mut buf = vec![0u8; out.len()];
                t.as_mut().ok_or_else(|| ObsError("challenge before new".into()))?.challenge_bytes(label, &mut buf);
                if &buf != out {
                    return Err(ObsError("replaying the public log does not reproduce the recorded challenge".into()));
                }
            },
            Event::RngFinalize { ext, .. } => {
                let tr = t.as_ref().ok_or_else(|| ObsError("rng before new".into()))?;
                let mut rng = tr.build_rng().finalize(&mut FixedBlock(*ext));
                for _ in 0..draws {
                    let mut b = [0u8; 64];
                    rng.fill_bytes(&mut b);
                    cands.push((point, Scalar::from_bytes_mod_order_wide(&b)));
                }
                point += 1;
            },
            _ => {},
        }
    }
    Ok(cands)
}

fn execute(sc: &Scenario, st: &mut RunStats) -> Vec<Violation> {
    let mut out = Vec::new();
    st.group("free");
    let Some((sa, sb)) = sides(sc) else {
        st.probe("pair_not_applicable");
        return out;
    };
    let seeded = sc.wit.seed_nonce.is_some();
    let key = format!("{:?}/{}/seeded={}", sc.pair, sc.mode.kind(), seeded);
    let mut obs = Vec::new();
    for (name, side) in [("run1", &sa), ("run2", &sb)] {
        match observe_prove(&side.ctx, &side.params, &side.built.statement, &side.built.witness, &sc.mode) {
            Ok(ProveOutcome::Proved(o)) => {
                st.steps += o.frng_calls as u64;
                st.evals += 1;
                st.event(format!(
                    "{} pair={:?} rng={} calls={} bytes={} proof={}",
                    name,
                    sc.pair,
                    sc.mode.kind(),
                    o.frng_calls,
                    o.frng_bytes,
                    crate::runner::digest(&[&o.parts.to_bytes()])
                ));
                obs.push(o);
            },
            Ok(ProveOutcome::Caught(Caught::RngBudget(n), _)) => {
                out.push(Violation::new(
                    "prover_bounded_liveness",
                    key,
                    format!("{}: prover consumed {} bytes of external randomness without finishing under {:?}", name, n, sc.mode),
                ));
                return out;
            },
            Ok(ProveOutcome::Caught(c, _)) => {
                out.push(Violation::new("prover_panicked_under_rng_fault", key, format!("{}: {:?} under {:?}", name, c, sc.mode)));
                return out;
            },
            Ok(ProveOutcome::Refused(e)) => {
                out.push(Violation::new("harness:pair_side_refused", "setup", format!("{} {:?}: {}", name, sc.pair, e)));
                return out;
            },
            Err(e) => {
                out.push(Violation::new("harness:observation_unavailable", "observe", e.0));
                return out;
            },
        }
    }
    st.fault(&format!("rng_{}", sc.mode.kind()));
    st.probe(&format!("pair_{}", match sc.pair {
        Pair::Identical => "identical",
        Pair::BlindingShift { .. } => "blinding_shift_same_commitment",
        Pair::RaggedShift { .. } => "ragged_shift_same_commitment",
        Pair::ValueTrade { .. } => "value_trade_same_commitment",
        Pair::Context => "context",
        Pair::Promise { .. } | Pair::PromiseTo { .. } => "promise",
        Pair::PromiseSwap { .. } => "promise_positions",
        Pair::Commitment { .. } => "commitment",
        Pair::Bits => "bits",
    }));
    if seeded {
        st.probe("seeded");
    } else {
        st.probe("unseeded");
    }
    // both runs really were served the same stream by the simulator (what the library then does
    // with it is its business)
    let n = obs[0].served.len().min(obs[1].served.len());
    if obs[0].served[..n] != obs[1].served[..n] {
        out.push(Violation::new("harness:streams_differ", "setup", "paired runs were not served the same stream".to_string()));
        return out;
    }
    let o1 = observables(&obs[0], &sa.params, seeded);
    let o2 = observables(&obs[1], &sb.params, seeded);
    // sanity for the same-commitment pairs: the public transcript prefix is identical
    if matches!(sc.pair, Pair::BlindingShift { .. } | Pair::RaggedShift { .. } | Pair::ValueTrade { .. }) {
        if sa.built.commitments != sb.built.commitments {
            out.push(Violation::new("harness:degenerate_pair_commitments_differ", "setup", format!("{:?}", sc.pair)));
            return out;
        }
        if obs[0].view.appends_before(0).split_last().map(|x| x.1.to_vec()) != obs[1].view.appends_before(0).split_last().map(|x| x.1.to_vec()) {
            out.push(Violation::new("harness:degenerate_pair_public_prefix_differs", "setup", format!("{:?}", sc.pair)));
            return out;
        }
        st.probe("same_commitment_different_witness");
    }
    match sc.pair {
        Pair::Identical => {
            st.evals += 1;
            if obs[0].parts != obs[1].parts {
                out.push(Violation::new(
                    "identical_runs_not_reproducible",
                    key,
                    format!("two identical prover runs under the same stream {:?} produced different proofs", sc.mode),
                ));
                return out;
            }
        },
        _ => {
            st.evals += 1;
            let mut set: HashMap<[u8; 32], &str> = HashMap::new();
            for (n, v) in &o1 {
                set.insert(v.to_bytes(), n.as_str());
            }
            for (n2, v2) in &o2 {
                if let Some(n1) = set.get(&v2.to_bytes()) {
                    out.push(Violation::new(
                        "nonce_shared_between_different_runs",
                        format!("{:?}/{}", std::mem::discriminant(&sc.pair), if n2 == "r" || n2 == "s" { "rs" } else { "vec" }),
                        format!(
                            "under the same faulty stream {:?}, runs differing only in {:?} share a nonce: {} of run 1 equals {} of run 2 (seeded={}, cfg={:?})",
                            sc.mode, sc.pair, n1, n2, seeded, sc.cfg
                        ),
                    ));
                    return out;
                }
            }
        },
    }
    // within each run, distinctness still holds under the faulty stream
    for (ri, o) in [&o1, &o2].iter().enumerate() {
        for (i, (n, v)) in o.iter().enumerate() {
            if *v == Scalar::ZERO {
                out.push(Violation::new("nonce_is_zero_under_rng_fault", n.clone(), format!("run{} {} is zero under {:?}", ri + 1, n, sc.mode)));
                return out;
            }
            for (n0, v0) in o.iter().take(i) {
                if v0 == v {
                    out.push(Violation::new(
                        "nonce_repeated_within_proof_under_rng_fault",
                        format!("{}={}", n0, n),
                        format!("run{}: {} equals {} under {:?} (seeded={}, cfg={:?})", ri + 1, n0, n, sc.mode, seeded, sc.cfg),
                    ));
                    return out;
                }
            }
        }
    }
    // public computability
    for (ri, (o, ob)) in [(&o1, &obs[0]), (&o2, &obs[1])].iter().enumerate() {
        let cands = match public_candidates(ob, 2 * sc.cfg.ext + 4) {
            Ok(c) => c,
            Err(e) => {
                out.push(Violation::new("harness:observation_unavailable", "observe", e.0));
                return out;
            },
        };
        st.evals += 1;
        st.probe_n("public_candidates_tried", cands.len() as u64);
        let set: HashMap<[u8; 32], usize> = cands.iter().map(|(p, s)| (s.to_bytes(), *p)).collect();
        for (n, v) in o.iter() {
            if let Some(p) = set.get(&v.to_bytes()) {
                out.push(Violation::new(
                    "nonce_computable_from_public_data",
                    format!("rebuild_point_{}", (*p).min(2)),
                    format!(
                        "run{}: nonce {} equals a value computed from the public transcript and the (known) faulty stream {:?} alone, at RNG rebuild point {} (no witness involved); seeded={}, cfg={:?}",
                        ri + 1, n, sc.mode, p, seeded, sc.cfg
                    ),
                ));
                return out;
            }
        }
    }
    out
}

impl Check for C14 {
    type Scenario = Scenario;

    fn id(&self) -> &'static str {
        "C14"
    }

    fn level(&self) -> &'static str {
        "fault_enumeration"
    }

    fn rule(&self) -> String {
        "fault modes of the external RNG {all-zero, all-ones, constant byte, short period 1/2/3/7/31/32/33, counter, stuck after n bytes, replayed stream} x pair kinds {identical; same commitment with shifted blindings under G_a=G_b; the same with a witness assembled through the public fields whose first opening carries fewer blinding factors; same commitment with traded value under H=G_0; context differs; one promise differs; one commitment differs; bit length differs} x {seed, no seed} are enumerated round-robin over seeded configurations; both runs of a pair are served the SAME stream; nonces are read as free-module coordinates per clean generator axis; additionally every value computable at each RNG rebuild point from the recorded public transcript plus the known stream (without witness rekeying) is compared with the observed nonces; one evaluation = one observed prover run or one oracle comparison; distinct = distinct event-log hashes".into()
    }

    fn assumptions(&self) -> Vec<String> {
        vec![
            "nonces are observable only over the free module; degenerate Pedersen generators (legal inputs of the public API) make two witnesses share one commitment".into(),
            "'never computable from public data' is decided for the concrete attacker who knows the whole public transcript and the faulty stream and evaluates the same transcript-RNG construction without the witness; it is not a proof of pseudorandomness of STROBE".into(),
        ]
    }

    fn components(&self) -> Value {
        super::components_native()
    }

    fn runs(&self, tier: Tier) -> u64 {
        match tier {
            Tier::Quick => 4_200,
            Tier::Thorough => 420_000,
        }
    }

    fn generate(&self, rng: &mut SimRng, tier: Tier, index: u64) -> Scenario {
        let pair_sel = index % 7;
        let seeded = (index / 7) % 2 == 0;
        let mut cfg = Config::generate(rng, if tier == Tier::Quick { 64 } else { 512 }, 8);
        if seeded {
            cfg.m = 1;
            if rng.chance(1, 2) {
                cfg.cap = 1;
            }
        }
        if pair_sel == 1 && cfg.ext < 2 {
            cfg.ext = rng.range(2, 6) as usize;
        }
        let ragged = pair_sel == 1 && !seeded && rng.chance(1, 3);
        if ragged {
            if cfg.ext < 3 {
                cfg.ext = rng.range(3, 6) as usize;
            }
            if cfg.m < 2 {
                cfg.m = 2;
                cfg.cap = cfg.cap.max(2);
            }
        }
        let mut wit = WitnessSpec::generate(rng, &cfg, false);
        if seeded {
            wit.seed_nonce = Some(rng.next_u64());
        }
        let max: u64 = if cfg.bits == 64 { u64::MAX } else { (1u64 << cfg.bits) - 1 };
        let j = rng.usize_below(cfg.m);
        let pair = match pair_sel {
            0 => Pair::Identical,
            1 if ragged => Pair::RaggedShift {
                j: rng.usize_below(cfg.m),
                a: rng.usize_below(cfg.ext),
                b: rng.usize_below(cfg.ext),
                short: rng.range(1, cfg.ext as u64 - 2) as usize,
            },
            1 => {
                // any two blinding positions, biased to include the last one; opening biased to the last
                let a = rng.usize_below(cfg.ext);
                let mut b = if rng.chance(1, 2) { cfg.ext - 1 } else { rng.usize_below(cfg.ext) };
                if b == a {
                    b = (a + 1) % cfg.ext;
                }
                Pair::BlindingShift { j: if rng.chance(1, 2) { cfg.m - 1 } else { j }, a, b }
            },
            2 => {
                // keep v + 1 in range, and v + 1 - promise < 2^bits
                if wit.values[j] >= max {
                    wit.values[j] = max - 1;
                    if let Some(p) = wit.promises[j] {
                        wit.promises[j] = Some(p.min(wit.values[j]));
                    }
                }
                if cfg.bits == 1 {
                    wit.values[j] = 0;
                    wit.promises[j] = None;
                }
                Pair::ValueTrade { j }
            },
            3 => Pair::Context,
            4 if cfg.m >= 2 && rng.chance(1, 3) => {
                // the same promise values on other positions: [Some(p), None] vs [None, Some(p)]
                let j2 = (j + 1) % cfg.m;
                let lo = wit.values[j].min(wit.values[j2]);
                if lo == 0 {
                    wit.values[j] = wit.values[j].max(1);
                    wit.values[j2] = wit.values[j2].max(1);
                }
                let lo = wit.values[j].min(wit.values[j2]);
                wit.promises[j] = Some(1 + rng.below(lo));
                wit.promises[j2] = None;
                wit.same_as_prev.clear();
                wit.same_as_first.clear();
                Pair::PromiseSwap { j, j2 }
            },
            4 if rng.chance(1, 3) => {
                // boundary pair: the value sits at the top of the range, the promise goes from
                // absent (or 1) to the value itself; at 64 bits that is u64::MAX
                if rng.chance(1, 2) && cfg.m * 64 <= 512 {
                    cfg.bits = 64;
                }
                let top: u64 = if cfg.bits == 64 { u64::MAX } else { (1u64 << cfg.bits) - 1 };
                wit.values[j] = top;
                wit.promises[j] = if rng.chance(1, 2) || top < 2 { None } else { Some(1) };
                Pair::PromiseTo { j, to: Some(top) }
            },
            4 => {
                if wit.values[j] == 0 && wit.promises[j].unwrap_or(0) == 0 {
                    wit.values[j] = 1.min(max);
                }
                Pair::Promise { j }
            },
            5 => Pair::Commitment { j },
            _ => {
                // value must fit both bit lengths
                let nb = if cfg.bits == 64 { 32 } else { cfg.bits * 2 };
                let lim = cfg.bits.min(nb);
                let m2: u64 = if lim == 64 { u64::MAX } else { (1u64 << lim) - 1 };
                for (v, p) in wit.values.iter_mut().zip(wit.promises.iter_mut()) {
                    *v &= m2;
                    if let Some(pp) = p {
                        *pp = (*pp).min(*v);
                    }
                }
                if cfg.bits * 2 * cfg.m > 1024 {
                    cfg.m = 1;
                    cfg.cap = 1;
                    wit.values.truncate(1);
                    wit.promises.truncate(1);
                }
                Pair::Bits
            },
        };
        Scenario { cfg, wit, ctx: Context::generate(rng), mode: gen_rng_mode(rng, false), pair }
    }

    fn execute(&self, sc: &Scenario, st: &mut RunStats) -> Vec<Violation> {
        execute(sc, st)
    }

    fn shrink(&self, sc: &Scenario) -> Vec<Scenario> {
        let mut v = Vec::new();
        if sc.mode != RngMode::AllZero {
            let mut s = sc.clone();
            s.mode = RngMode::AllZero;
            v.push(s);
        }
        if sc.cfg.cap > sc.cfg.m {
            let mut s = sc.clone();
            s.cfg.cap = sc.cfg.m;
            v.push(s);
        }
        if sc.cfg.m > 1 {
            let mut s = sc.clone();
            s.cfg.m = 1;
            s.cfg.cap = 1;
            s.wit.values.truncate(1);
            s.wit.promises.truncate(1);
            v.push(s);
        }
        if sc.cfg.ext > 2 {
            let mut s = sc.clone();
            s.cfg.ext = 2;
            v.push(s);
        }
        if sc.cfg.bits > 2 {
            let mut s = sc.clone();
            s.cfg.bits = 2;
            s.wit.values.iter_mut().for_each(|x| *x &= 1);
            s.wit.promises.iter_mut().for_each(|p| *p = None);
            v.push(s);
        }
        if sc.ctx.extra.is_some() {
            let mut s = sc.clone();
            s.ctx.extra = None;
            v.push(s);
        }
        v
    }

    fn required_probes(&self, _tier: Tier) -> Vec<&'static str> {
        vec![
            "pair_identical", "pair_blinding_shift_same_commitment", "pair_ragged_shift_same_commitment", "pair_value_trade_same_commitment", "pair_context",
            "pair_promise", "pair_promise_positions", "pair_commitment", "pair_bits", "seeded", "unseeded", "same_commitment_different_witness",
            "rng_all_zero", "rng_all_ones", "rng_constant_byte", "rng_short_period", "rng_counter", "rng_stuck_after",
            "rng_replay", "rng_zero_block_at", "rng_repeat_block_at", "public_candidates_tried",
        ]
    }
}
