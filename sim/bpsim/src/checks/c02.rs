//! C02 — soundness: the verifier enforces exactly the Bulletproofs+ relation.
//!
//! Reference model as oracle, evaluated on every verification a simulated verifier performs, over
//! messages from honest provers, from the hostile channel (every fault kind), and from an
//! adversary that crafts proofs out of fresh group elements so that each verifier coefficient
//! lands on its own coordinate of the free module.

use curve25519_dalek::{ristretto::RistrettoPoint, scalar::Scalar};
use serde::{Deserialize, Serialize};
use serde_json::Value;
use tari_bulletproofs_plus::{
    range_proof::{RangeProof, VerifyAction},
    range_statement::RangeStatement,
    traits::Compressable,
};

use crate::{
    channel::*,
    faultrng::RngMode,
    free::FreePoint,
    group::Group,
    observe::*,
    refmodel::*,
    runner::{Check, RunStats, Tier, Violation},
    simrng::SimRng,
    world::*,
};

#[derive(Clone, Debug, Serialize, Deserialize)]
pub enum Source {
    Honest,
    Faulted { faults: Vec<Fault>, fault_seed: u64 },
    /// proof assembled from fresh group elements and random scalars; `rounds_delta` adds/removes
    /// rounds relative to log2(bits*m)
    Crafted { seed: u64, rounds_delta: i32 },
    /// proof made by the simulator's own dishonest prover (forge.rs): the protocol mirrored by hand,
    /// the inner-product argument run over `extra_rounds` more folding rounds than the statement has;
    /// kind 0 = the witness's own in-range values, 1 = 2^bits + small, 2 = -1, 3 = random scalars
    Forged { seed: u64, extra_rounds: usize, kind: u8 },
}

#[derive(Clone, Debug, Serialize, Deserialize)]
pub struct MemberSpec {
    pub m: usize,
    pub cap: usize,
    pub wit: WitnessSpec,
    pub ctx: Context,
    pub rng_seed: u64,
    pub source: Source,
    /// aggregated members only: the verifier's statement carries a seed in its public field
    #[serde(default)]
    pub owner_seed_on_aggregate: bool,
}

#[derive(Clone, Debug, Serialize, Deserialize)]
pub struct Scenario {
    pub group: String,
    pub bits: usize,
    pub ext: usize,
    pub members: Vec<MemberSpec>,
    pub action: usize,
    /// caller-supplied, well-formed Pedersen generators with an unusual relationship (world::related_pedersen)
    #[serde(default)]
    pub pc_variant: u8,
}

pub struct C02;

fn make_msg<G: Group>(sc: &Scenario, ms: &MemberSpec) -> Option<Msg<G>> {
    let mut m = make_msg_inner::<G>(sc, ms)?;
    if ms.owner_seed_on_aggregate && ms.m >= 2 {
        m.force_seed = Some(scalar_from_seed("c02forced", ms.rng_seed, 0));
    }
    Some(m)
}

fn make_msg_inner<G: Group>(sc: &Scenario, ms: &MemberSpec) -> Option<Msg<G>> {
    let cfg = Config { bits: sc.bits, m: ms.m, cap: ms.cap, ext: sc.ext };
    let pc = related_pedersen::<G>(sc.ext, sc.pc_variant, sc.bits);
    let built = match &pc {
        Some(pc) => build_with_params::<G>(custom_params::<G>(cfg.bits, cfg.cap, pc.clone()), &cfg, &ms.wit),
        None => build::<G>(&cfg, &ms.wit),
    };
    match &ms.source {
        Source::Honest | Source::Faulted { .. } => {
            let proof = match prove_mode::<G>(&ms.ctx, &built.statement, &built.witness, &RngMode::Healthy(ms.rng_seed)).0 {
                Ok(Ok(p)) => p,
                _ => return None,
            };
            let mut msg = Msg::<G>::honest(&cfg, &ms.wit, &ms.ctx, &built, &proof);
            msg.pc = pc;
            if let Source::Faulted { faults, fault_seed } = &ms.source {
                let fr = SimRng::new(*fault_seed);
                for (i, f) in faults.iter().enumerate() {
                    if let Some(n) = apply_fault(&msg, f, &mut fr.split_idx("f", i as u64)) {
                        msg = n;
                    }
                }
            }
            Some(msg)
        },
        Source::Forged { seed, extra_rounds, kind } => {
            let mut r = SimRng::new(*seed ^ 0x5eed);
            let promises: Vec<Option<u64>> = (0..ms.m)
                .map(|j| ms.wit.promises.get(j).copied().flatten().filter(|p| *p <= ms.wit.values[j]))
                .collect();
            let mask = if sc.bits >= 64 { u64::MAX } else { (1u64 << sc.bits) - 1 };
            let mut values = Vec::new();
            let mut bits_of = Vec::new();
            for j in 0..ms.m {
                // slot 0 carries the dishonest value, the others stay honest
                let k = if j == 0 { *kind } else { 0 };
                let honest = ms.wit.values[j] & mask;
                let p = promises[j].unwrap_or(0).min(honest);
                match k {
                    0 => {
                        values.push(Scalar::from(honest));
                        bits_of.push(honest - p);
                    },
                    1 => {
                        let small = r.below(16);
                        values.push(Scalar::from((1u128 << sc.bits) + small as u128 + p as u128));
                        bits_of.push(small & mask);
                    },
                    2 => {
                        values.push(-Scalar::ONE);
                        bits_of.push(mask);
                    },
                    _ => {
                        values.push(r.scalar());
                        bits_of.push(r.next_u64() & mask);
                    },
                }
            }
            let promises: Vec<Option<u64>> = (0..ms.m).map(|j| promises[j].map(|p| p.min(ms.wit.values[j] & mask))).collect();
            crate::forge::forge::<G>(&crate::forge::ForgeSpec {
                bits: sc.bits,
                m: ms.m,
                cap: ms.cap,
                ext: sc.ext,
                ctx: &ms.ctx,
                values,
                bits_of,
                promises,
                extra_rounds: *extra_rounds,
                seed: *seed,
            })
        },
        Source::Crafted { seed, rounds_delta } => {
            let mut r = SimRng::new(*seed);
            let rounds = (cfg.rounds() as i64 + *rounds_delta as i64).max(1) as usize;
            let commitments: Vec<G> = (0..ms.m).map(|_| G::random_point(&mut r)).collect();
            let parts = ProofParts {
                ext_tag: sc.ext as u8,
                d1: (0..sc.ext).map(|_| r.scalar().to_bytes()).collect(),
                a: G::enc(&G::random_point(&mut r)),
                a1: G::enc(&G::random_point(&mut r)),
                b: G::enc(&G::random_point(&mut r)),
                r1: r.scalar().to_bytes(),
                s1: r.scalar().to_bytes(),
                lr: (0..rounds).map(|_| (G::enc(&G::random_point(&mut r)), G::enc(&G::random_point(&mut r)))).collect(),
            };
            Some(Msg {
                bits: sc.bits,
                cap: ms.cap,
                ext: sc.ext,
                pc,
                commitments,
                promises: ms.wit.promises.clone(),
                seed: None,
                ctx: ms.ctx.clone(),
                proof: parts.to_bytes(),
                force_seed: None,
            })
        },
    }
}

fn clone_msg<G: Group>(m: &Msg<G>) -> Msg<G> {
    Msg {
        bits: m.bits,
        cap: m.cap,
        ext: m.ext,
        pc: m.pc.clone(),
        commitments: m.commitments.clone(),
        promises: m.promises.clone(),
        seed: m.seed,
        ctx: m.ctx.clone(),
        proof: m.proof.clone(),
        force_seed: m.force_seed,
    }
}

struct Opened<G: Group> {
    st: RangeStatement<G>,
    proof: RangeProof<G>,
    parts: ProofParts,
    msg: Msg<G>,
}

fn ref_for<G: Group>(o: &Opened<G>, challenges: &[Scalar]) -> RefVerdict<G> {
    let gens = &o.st.generators;
    let inp = RefInput::<G> {
        bits: gens.bit_length(),
        ext: gens.extension_degree() as usize,
        h: gens.h_base(),
        h_enc: G::c_bytes(&gens.h_base_compressed()),
        g: gens.g_bases(),
        g_enc: gens.g_bases_compressed().iter().map(|c| G::c_bytes(c)).collect(),
        gi: gens.gi_base_iter().cloned().collect(),
        hi: gens.hi_base_iter().cloned().collect(),
        commitments: &o.msg.commitments,
        promises: &o.msg.promises,
        parts: &o.parts,
        challenges,
    };
    paper_residual(&inp)
}

/// The relation must hold at *Fiat-Shamir* challenges: each challenge is only one if every prover
/// message that precedes it in the protocol was absorbed before it was drawn. Checked on the
/// recorded transcript log: A before y; L_j, R_j before e_j; A1 and B before the final e.
/// Returns the first message found missing.
fn fiat_shamir_order(view: &TranscriptView, parts: &ProofParts, commitments: &[[u8; 32]]) -> Option<String> {
    let rounds = parts.lr.len();
    if view.challenges.len() != rounds + 3 {
        return None;
    }
    let has = |upto_ord: usize, h: &[u8; 32]| -> bool {
        (0..=upto_ord).any(|o| view.appends_before(o).iter().any(|(_, m)| m.as_slice() == h.as_slice()))
    };
    if !has(0, &parts.a) {
        return Some("A is not absorbed before y".into());
    }
    // (statement data such as the commitments may legitimately be absorbed in another form; their
    // binding is decided by perturbation in C04, not by looking for their encodings here)
    let _ = commitments;
    for (j, (l, r)) in parts.lr.iter().enumerate() {
        if !has(2 + j, l) {
            return Some(format!("L[{}] is not absorbed before its round challenge", j));
        }
        if !has(2 + j, r) {
            return Some(format!("R[{}] is not absorbed before its round challenge", j));
        }
    }
    if !has(2 + rounds, &parts.a1) {
        return Some("A1 is not absorbed before the final challenge".into());
    }
    if !has(2 + rounds, &parts.b) {
        return Some("B is not absorbed before the final challenge".into());
    }
    None
}

fn is_identity<G: Group>(p: &G) -> bool {
    *p == G::identity()
}

/// Ristretto: the library's verdict against the reference's, challenges taken from the tap.
fn run_ristretto(sc: &Scenario, st: &mut RunStats) -> Vec<Violation> {
    type G = RistrettoPoint;
    let mut out = Vec::new();
    st.group("ristretto");
    let ms = &sc.members[0];
    let Some(msg) = make_msg::<G>(sc, ms) else {
        out.push(Violation::new("harness:prover_failed", "setup", "member 0".to_string()));
        return out;
    };
    let opened = match guarded(|| msg.open()) {
        Ok(Delivered::Ready(s, p)) => (s, p),
        Ok(Delivered::Refused(_)) => {
            st.probe("refused_before_verification");
            return out;
        },
        Err(c) => {
            out.push(Violation::new("verifier_panicked", "panic", format!("{:?}", c)));
            return out;
        },
    };
    let Some(parts) = ProofParts::parse(&msg.proof) else {
        out.push(Violation::new("harness:observation_unavailable", "observe", "decoder accepted bytes the harness cannot parse".to_string()));
        return out;
    };
    let o = Opened { st: opened.0, proof: opened.1, parts, msg };
    merlin::tap::start();
    let mut trs = vec![o.msg.ctx.transcript()];
    let tid = trs[0].tap_id();
    let a = action_from(sc.action);
    let a = if a == VerifyAction::RecoverOnly { VerifyAction::VerifyOnly } else { a };
    let res = guarded(|| G::verify(&mut trs, std::slice::from_ref(&o.st), std::slice::from_ref(&o.proof), a));
    let events = merlin::tap::stop();
    st.evals += 1;
    let view = match TranscriptView::from_events(&events, tid) {
        Ok(v) => v,
        Err(e) => {
            out.push(Violation::new("harness:observation_unavailable", "observe", e.0));
            return out;
        },
    };
    let lib_ok = match &res {
        Ok(Ok(_)) => true,
        Ok(Err(_)) => false,
        Err(c) => {
            out.push(Violation::new("verifier_panicked", "panic", format!("{:?}", c)));
            return out;
        },
    };
    let cenc: Vec<[u8; 32]> = o.msg.commitments.iter().map(|c| G::enc(c)).collect();
    if let Some(missing) = fiat_shamir_order(&view, &o.parts, &cenc) {
        out.push(Violation::new(
            "challenge_drawn_before_prover_message_absorbed",
            missing.clone(),
            format!("Ristretto, bits {} ext {}: {} — the relation is then not enforced at a Fiat-Shamir challenge", sc.bits, sc.ext, missing),
        ));
        return out;
    }
    let rv = ref_for::<G>(&o, &view.challenges);
    let (ref_ok, why) = match &rv {
        RefVerdict::ShapeReject(w) => (false, format!("shape: {}", w)),
        // no shape defect, yet the verifier stopped early: the reference would go on to evaluate
        // the relation, so an Err here has no ground in the protocol
        RefVerdict::NoChallenges(n) => (true, format!("no shape defect, but the verifier stopped after {} challenges", n)),
        RefVerdict::Residual(r) => (is_identity(r), "relation".to_string()),
    };
    if lib_ok && matches!(rv, RefVerdict::NoChallenges(_)) {
        out.push(Violation::new("harness:observation_unavailable", "observe", "verifier accepted but drew fewer challenges than the protocol has".to_string()));
        return out;
    }
    st.event(format!(
        "ristretto source={} lib_ok={} ref_ok={} ({}) challenges={}",
        src_name(&ms.source),
        lib_ok,
        ref_ok,
        why,
        crate::runner::digest(&[&view.challenges.iter().flat_map(|c| c.to_bytes()).collect::<Vec<u8>>()])
    ));
    if lib_ok {
        st.probe("accepted");
    } else {
        st.probe("rejected");
    }
    forged_probes(sc, lib_ok, st);
    if lib_ok != ref_ok {
        out.push(Violation::new(
            if lib_ok { "accepted_where_reference_rejects" } else { "rejected_where_reference_accepts" },
            format!("{}", src_name(&ms.source)),
            format!(
                "Ristretto, bits {} m {} cap {} ext {}: verify_batch says {} but the unoptimised evaluation of the relation at the same challenges says {} ({}); source {:?}",
                sc.bits,
                ms.m,
                ms.cap,
                sc.ext,
                if lib_ok { "Ok" } else { "Err" },
                if ref_ok { "accept" } else { "reject" },
                why,
                ms.source
            ),
        ));
    }
    out
}

/// reach of the dishonest prover: its ordinary-round, in-range proofs are accepted (the mirror is
/// faithful to the protocol as implemented), its surplus-round forgeries were delivered and refused
fn forged_probes(sc: &Scenario, lib_ok: bool, st: &mut RunStats) {
    if lib_ok && sc.members.iter().all(|m| matches!(m.source, Source::Forged { extra_rounds: 0, kind: 0, .. })) {
        st.probe("forger_faithful_accepted");
        if sc.members.iter().any(|m| m.m >= 2) {
            st.probe("forger_faithful_accepted_aggregated");
        }
        if sc.ext >= 2 {
            st.probe("forger_faithful_accepted_extended");
        }
    }
    if !lib_ok && sc.members.len() == 1 && matches!(sc.members[0].source, Source::Forged { extra_rounds, .. } if extra_rounds > 0) {
        st.probe("surplus_round_forgery_refused");
    }
}

fn src_name(s: &Source) -> &'static str {
    match s {
        Source::Honest => "honest",
        Source::Faulted { .. } => "faulted",
        Source::Crafted { .. } => "crafted",
        Source::Forged { .. } => "forged",
    }
}

/// Free module: coefficient-by-coefficient comparison of the verifier's residual.
fn run_free(sc: &Scenario, st: &mut RunStats) -> Vec<Violation> {
    type G = FreePoint;
    let mut out = Vec::new();
    st.group("free");
    let mut opened: Vec<Opened<G>> = Vec::new();
    for (mi, ms) in sc.members.iter().enumerate() {
        let Some(msg) = make_msg::<G>(sc, ms) else {
            out.push(Violation::new("harness:prover_failed", "setup", format!("member {}", mi)));
            return out;
        };
        match guarded(|| msg.open()) {
            Ok(Delivered::Ready(s, p)) => {
                let Some(parts) = ProofParts::parse(&msg.proof) else {
                    out.push(Violation::new("harness:observation_unavailable", "observe", "decoder accepted bytes the harness cannot parse".to_string()));
                    return out;
                };
                opened.push(Opened { st: s, proof: p, parts, msg });
            },
            Ok(Delivered::Refused(_)) => {
                st.probe("refused_before_verification");
                if mi == 0 {
                    return out;
                }
            },
            Err(c) => {
                out.push(Violation::new("verifier_panicked", "panic", format!("{:?}", c)));
                return out;
            },
        }
        st.probe(&format!("source_{}", src_name(&ms.source)));
    }
    let a = action_from(sc.action);
    let a = if a == VerifyAction::RecoverOnly { VerifyAction::VerifyOnly } else { a };
    let ctxs: Vec<&Context> = opened.iter().map(|o| &o.msg.ctx).collect();
    let sts: Vec<RangeStatement<G>> = opened.iter().map(|o| o.st.clone()).collect();
    let proofs: Vec<RangeProof<G>> = opened.iter().map(|o| o.proof.clone()).collect();
    let obs = match observe_verify(&ctxs, &sts, &proofs, a) {
        Ok(o) => o,
        Err(e) => {
            out.push(Violation::new("harness:observation_unavailable", "observe", e.0));
            return out;
        },
    };
    st.evals += 1;
    let lib_ok = match &obs.result {
        Ok(Ok(_)) => true,
        Ok(Err(_)) => false,
        Err(c) => {
            out.push(Violation::new("verifier_panicked", "panic", format!("{:?}", c)));
            return out;
        },
    };
    // consistent batch? (same generators by construction unless a fault changed them)
    let consistent = opened.iter().all(|o| {
        o.st.generators.bit_length() == opened[0].st.generators.bit_length()
            && o.st.generators.extension_degree() as usize == opened[0].st.generators.extension_degree() as usize
            && o.st.generators.g_bases() == opened[0].st.generators.g_bases()
            && o.st.generators.h_base() == opened[0].st.generators.h_base()
    });
    if !consistent {
        st.probe("inconsistent_batch");
        if lib_ok {
            out.push(Violation::new("accepted_where_reference_rejects", "inconsistent batch", "members disagree on parameters but the batch was accepted".to_string()));
        }
        return out;
    }
    let mut refs = Vec::new();
    let mut any_shape = None;
    let mut stopped_early = None;
    for (i, o) in opened.iter().enumerate() {
        let cenc: Vec<[u8; 32]> = o.msg.commitments.iter().map(|c| G::enc(c)).collect();
        if let Some(missing) = fiat_shamir_order(&obs.views[i], &o.parts, &cenc) {
            out.push(Violation::new(
                "challenge_drawn_before_prover_message_absorbed",
                missing.clone(),
                format!("bits {} ext {} member {}: {} — the relation is then not enforced at a Fiat-Shamir challenge", sc.bits, sc.ext, i, missing),
            ));
            return out;
        }
        let rv = ref_for::<G>(o, &obs.views[i].challenges);
        match &rv {
            RefVerdict::ShapeReject(w) => {
                any_shape.get_or_insert(format!("member {}: {}", i, w));
            },
            RefVerdict::NoChallenges(n) => {
                stopped_early.get_or_insert((i, *n));
            },
            _ => {},
        }
        refs.push(rv);
    }
    let residual_lib = obs.msm.last().map(|e| e.result.clone());
    let k = opened.len();
    let srcs: Vec<&str> = sc.members.iter().map(|m| src_name(&m.source)).collect();
    st.event(format!(
        "free k={} sources={:?} lib_ok={} shape={:?} residual_terms={:?} residual={}",
        k,
        srcs,
        lib_ok,
        any_shape,
        residual_lib.as_ref().map(|r| r.0.len()),
        residual_lib.as_ref().map(|r| crate::runner::digest(&[&r.canonical_bytes()])).unwrap_or_default()
    ));
    if k > 1 {
        st.fault("batched");
    }
    if lib_ok {
        st.probe("accepted");
    } else {
        st.probe("rejected");
    }
    forged_probes(sc, lib_ok, st);
    let key = srcs.join("+");
    if let Some(why) = any_shape {
        st.probe("shape_rejection_expected");
        if lib_ok {
            out.push(Violation::new(
                "accepted_where_reference_rejects",
                key,
                format!("bits {} ext {}: the batch was accepted although the reference refuses it without evaluating the relation ({})", sc.bits, sc.ext, why),
            ));
        }
        return out;
    }
    if let Some((i, n)) = stopped_early {
        st.probe("verifier_stopped_before_all_challenges");
        if lib_ok {
            out.push(Violation::new("harness:observation_unavailable", "observe", "verifier accepted but drew fewer challenges than the protocol has".to_string()));
        } else {
            out.push(Violation::new(
                "rejected_where_reference_accepts",
                key,
                format!(
                    "bits {} ext {} sources {:?}: verify_batch returned {} after drawing only {} challenge(s) for member {}, but the reference finds no shape defect in any member (promises {:?})",
                    sc.bits,
                    sc.ext,
                    srcs,
                    render_verify(&obs.result),
                    n,
                    i,
                    opened[i].msg.promises
                ),
            ));
        }
        return out;
    }
    let Some(residual_lib) = residual_lib else {
        // the library refused before its final check although the reference has no ground to
        out.push(Violation::new(
            "rejected_where_reference_accepts",
            key,
            format!(
                "bits {} ext {}: verify_batch returned {} without reaching its final check, but the reference finds no shape defect",
                sc.bits,
                sc.ext,
                render_verify(&obs.result)
            ),
        ));
        return out;
    };
    let ref_res: Vec<&FreePoint> = refs
        .iter()
        .map(|r| match r {
            RefVerdict::Residual(p) => p,
            _ => unreachable!(),
        })
        .collect();
    if k == 1 {
        let rr = ref_res[0];
        st.probe("singleton_residual_compared");
        if rr.is_zero() != residual_lib.is_zero() {
            out.push(Violation::new(
                if residual_lib.is_zero() { "accepted_where_reference_rejects" } else { "rejected_where_reference_accepts" },
                key,
                format!(
                    "bits {} m {} cap {} ext {} source {:?}: library residual is {} but the reference residual is {} ({} vs {} non-zero coordinates)",
                    sc.bits,
                    sc.members[0].m,
                    sc.members[0].cap,
                    sc.ext,
                    sc.members[0].source,
                    if residual_lib.is_zero() { "zero" } else { "non-zero" },
                    if rr.is_zero() { "zero" } else { "non-zero" },
                    residual_lib.0.len(),
                    rr.0.len()
                ),
            ));
            return out;
        }
        if !rr.is_zero() {
            st.probe("nonzero_residual_compared");
            // proportionality: lib = w * ref for one non-zero w
            let (id0, c0) = rr.0.iter().next().unwrap();
            let w = residual_lib.coeff(*id0) * c0.invert();
            let scaled = rr.scaled(&w);
            if w == Scalar::ZERO || scaled != residual_lib {
                // name one coordinate that disagrees
                let mut which = String::new();
                for id in residual_lib.0.keys().chain(rr.0.keys()) {
                    if residual_lib.coeff(*id) != scaled.coeff(*id) {
                        which = name_axis(&opened[0], *id);
                        break;
                    }
                }
                out.push(Violation::new(
                    "element_weighted_differently_from_published_protocol",
                    which.clone(),
                    format!(
                        "bits {} m {} cap {} ext {} source {:?}: the verifier's residual is not a scalar multiple of the reference residual; first disagreeing coordinate: {} (library has {} non-zero coordinates, reference {})",
                        sc.bits,
                        sc.members[0].m,
                        sc.members[0].cap,
                        sc.ext,
                        sc.members[0].source,
                        which,
                        residual_lib.0.len(),
                        rr.0.len()
                    ),
                ));
                return out;
            }
        }
    } else {
        // batch: weights from the scalar on each member's B point
        let all_zero = ref_res.iter().all(|r| r.is_zero());
        if all_zero != residual_lib.is_zero() {
            out.push(Violation::new(
                if residual_lib.is_zero() { "accepted_where_reference_rejects" } else { "rejected_where_reference_accepts" },
                key,
                format!("batch of {}: library residual zero = {}, all reference residuals zero = {}", k, residual_lib.is_zero(), all_zero),
            ));
            return out;
        }
        let last = obs.msm.last().unwrap();
        let mut ws = Vec::new();
        for o in &opened {
            let b = FreePoint::dec(&o.parts.b).unwrap();
            let hits: Vec<Scalar> = last.dynamic.iter().filter(|(_, p)| *p == b).map(|(s, _)| *s).collect();
            // B must be unique among ALL dynamic points for the attribution to be unambiguous
            if hits.len() != 1 {
                st.probe("batch_weight_ambiguous");
                return out;
            }
            ws.push(-hits[0]);
        }
        // the published batch check combines the members with independent random factors
        for x in 0..ws.len() {
            for y in 0..x {
                if ws[x] == ws[y] {
                    out.push(Violation::new(
                        "batch_members_share_one_combination_factor",
                        "batch",
                        format!("batch of {} ({:?}): members {} and {} enter the verifier's final check with the same factor", k, srcs, y, x),
                    ));
                    return out;
                }
            }
        }
        let mut sum = FreePoint::zero();
        for (w, r) in ws.iter().zip(ref_res.iter()) {
            sum.add_scaled(w, r);
        }
        st.probe("batch_residual_compared");
        if sum != residual_lib {
            out.push(Violation::new(
                "element_weighted_differently_from_published_protocol",
                "batch",
                format!("batch of {} ({:?}): the verifier's residual is not the weighted sum of the members' reference residuals", k, srcs),
            ));
            return out;
        }
        // adversarially structured follow-up: two members receive offsetting defects on d1[c] tuned to factors
        // the verifier was seen to use. Each of them then fails the reference relation, so the batch must be
        // rejected - whatever the verifier does with its factors. Three ways of tuning: both at once against
        // the factors of the honest run; or one member first, and the other against the factors observed with
        // that member already in place (either order)
        if all_zero {
            let (x, y) = (0usize, k - 1);
            if x != y && opened[x].parts.b != opened[y].parts.b {
                let coord = (sc.action / 3) % sc.ext;
                let c = Scalar::from(0xC02u64) + ws[x];
                let bump = |parts: &ProofParts, d: Scalar| -> ProofParts {
                    let mut p = parts.clone();
                    p.d1[coord] = (ProofParts::scalar(&p.d1[coord]).unwrap() + d).to_bytes();
                    p
                };
                let weights_with = |px: &ProofParts, py: &ProofParts| -> Option<(Scalar, Scalar)> {
                    let mut proofs2 = proofs.clone();
                    proofs2[x] = FreePoint::from_bytes(&px.to_bytes()).ok()?;
                    proofs2[y] = FreePoint::from_bytes(&py.to_bytes()).ok()?;
                    let o = observe_verify(&ctxs, &sts, &proofs2, a).ok()?;
                    let last = o.msm.last()?;
                    let w_of = |b: &[u8; 32]| -> Option<Scalar> {
                        let bp = FreePoint::dec(b)?;
                        let hits: Vec<Scalar> = last.dynamic.iter().filter(|(_, p)| *p == bp).map(|(s, _)| *s).collect();
                        if hits.len() == 1 { Some(-hits[0]) } else { None }
                    };
                    Some((w_of(&px.b)?, w_of(&py.b)?))
                };
                for variant in 0..3usize {
                    let (px, py, wx, wy) = match variant {
                        0 => (bump(&opened[x].parts, c * ws[y]), bump(&opened[y].parts, -c * ws[x]), ws[x], ws[y]),
                        1 => {
                            // y first, x tuned to what the verifier does with y in place
                            let py = bump(&opened[y].parts, c);
                            let Some((wx, wy)) = weights_with(&opened[x].parts, &py) else { continue };
                            if wx == Scalar::ZERO {
                                continue;
                            }
                            (bump(&opened[x].parts, -(wy * c) * wx.invert()), py, wx, wy)
                        },
                        _ => {
                            let px = bump(&opened[x].parts, c);
                            let Some((wx, wy)) = weights_with(&px, &opened[y].parts) else { continue };
                            if wy == Scalar::ZERO {
                                continue;
                            }
                            (px, bump(&opened[y].parts, -(wx * c) * wy.invert()), wx, wy)
                        },
                    };
                    let ox = Opened { st: opened[x].st.clone(), proof: opened[x].proof.clone(), parts: px.clone(), msg: Msg { proof: px.to_bytes(), ..clone_msg(&opened[x].msg) } };
                    let oy = Opened { st: opened[y].st.clone(), proof: opened[y].proof.clone(), parts: py.clone(), msg: Msg { proof: py.to_bytes(), ..clone_msg(&opened[y].msg) } };
                    let (RefVerdict::Residual(rx), RefVerdict::Residual(ry)) = (ref_for::<G>(&ox, &obs.views[x].challenges), ref_for::<G>(&oy, &obs.views[y].challenges)) else {
                        continue;
                    };
                    // the pair is tuned: under the factors observed the two defects cancel exactly
                    let mut tuned = FreePoint::zero();
                    tuned.add_scaled(&wx, &rx);
                    tuned.add_scaled(&wy, &ry);
                    if rx.is_zero() || ry.is_zero() || !tuned.is_zero() {
                        continue;
                    }
                    let (Ok(qx), Ok(qy)) = (FreePoint::from_bytes(&px.to_bytes()), FreePoint::from_bytes(&py.to_bytes())) else { continue };
                    let mut proofs2 = proofs.clone();
                    proofs2[x] = qx;
                    proofs2[y] = qy;
                    let r2 = verify::<G>(&ctxs, &sts, &proofs2, a);
                    st.evals += 1;
                    st.fault(if variant == 0 { "tuned_cancelling_pair_resubmitted" } else { "tuned_pair_one_member_first" });
                    match r2 {
                        Err(c) => {
                            out.push(Violation::new("verifier_panicked", "panic", format!("{:?}", c)));
                            return out;
                        },
                        Ok(Ok(_)) => {
                            out.push(Violation::new(
                                "accepted_where_reference_rejects",
                                "tuned pair",
                                format!(
                                    "batch of {} ({:?}): members {} and {} received offsetting defects on d1[{}] computed from factors the verifier was seen to use ({}); each fails the reference relation but the batch was accepted",
                                    k,
                                    srcs,
                                    x,
                                    y,
                                    coord,
                                    ["both at once, factors of the honest run", "last member first, first member tuned to the factors then observed", "first member first, last member tuned to the factors then observed"][variant]
                                ),
                            ));
                            return out;
                        },
                        Ok(Err(_)) => {},
                    }
                }
            }
        }
    }
    out
}

fn name_axis(o: &Opened<FreePoint>, id: u64) -> String {
    let g = &o.st.generators;
    if g.h_base().as_basis() == Some(id) {
        return "H".into();
    }
    for (k, p) in g.g_bases().iter().enumerate() {
        if p.as_basis() == Some(id) {
            return format!("G[{}]", k);
        }
    }
    for (i, p) in g.gi_base_iter().enumerate() {
        if p.as_basis() == Some(id) {
            return format!("Gi[{}]", i);
        }
    }
    for (i, p) in g.hi_base_iter().enumerate() {
        if p.as_basis() == Some(id) {
            return format!("Hi[{}]", i);
        }
    }
    let named = [("A", o.parts.a), ("A1", o.parts.a1), ("B", o.parts.b)];
    for (n, h) in named {
        if FreePoint::dec(&h).and_then(|p| p.as_basis()) == Some(id) {
            return n.into();
        }
    }
    for (j, (l, r)) in o.parts.lr.iter().enumerate() {
        if FreePoint::dec(l).and_then(|p| p.as_basis()) == Some(id) {
            return format!("L[{}]", j);
        }
        if FreePoint::dec(r).and_then(|p| p.as_basis()) == Some(id) {
            return format!("R[{}]", j);
        }
    }
    for (j, c) in o.msg.commitments.iter().enumerate() {
        if c.as_basis() == Some(id) {
            return format!("V[{}]", j);
        }
    }
    format!("basis {:016x}", id)
}

fn gen_faults(rng: &mut SimRng, ext: usize, m: usize, rounds: usize, allow_param_faults: bool) -> Vec<Fault> {
    let n_el = ext + 5 + 2 * rounds;
    let n = rng.range(1, 2) as usize;
    (0..n)
        .map(|_| {
            let top = if allow_param_faults { 16 } else { 11 };
            match rng.below(top) {
                0 => Fault::FlipBit { elem: rng.usize_below(n_el), bit: rng.usize_below(256) },
                1 | 2 => {
                    let dk = rng.usize_below(ext);
                    let e = *rng.pick(&[dk, ext + 3, ext + 4]);
                    Fault::ReplaceScalar {
                        elem: e,
                        with: rng.pick(&[ScalarRepl::PlusOne, ScalarRepl::Negate, ScalarRepl::Zero, ScalarRepl::Random]).clone(),
                    }
                },
                3 | 4 => {
                    let pts: Vec<usize> = (0..n_el).filter(|e| !(*e < ext || *e == ext + 3 || *e == ext + 4)).collect();
                    Fault::ReplacePoint {
                        elem: *rng.pick(&pts),
                        with: rng.pick(&[PointRepl::OtherHonest, PointRepl::Sibling, PointRepl::Random, PointRepl::Identity, PointRepl::Undecodable]).clone(),
                    }
                },
                5 => Fault::DropRound,
                6 => Fault::AddRound,
                7 => Fault::ReplaceCommitment {
                    j: rng.usize_below(m),
                    with: rng.pick(&[PointRepl::OtherHonest, PointRepl::Random, PointRepl::Identity, PointRepl::Sibling]).clone(),
                },
                8 => Fault::Promise {
                    j: rng.usize_below(m),
                    with: rng.pick(&[PromiseRepl::PlusOne, PromiseRepl::MinusOne, PromiseRepl::Toggle, PromiseRepl::TwoPowBits, PromiseRepl::Max]).clone(),
                },
                9 => {
                    if m >= 2 {
                        Fault::SwapCommitments(0, m - 1)
                    } else {
                        Fault::ContextExtra
                    }
                },
                10 => rng.pick(&[Fault::ContextLabel, Fault::ContextExtra]).clone(),
                11 => Fault::RetagExtension { up: rng.chance(1, 2), repair: true },
                12 => Fault::Bits { double: rng.chance(1, 2) },
                13 => Fault::GeneratorH(rng.pick(&[GenPart::PointOnly, GenPart::CompressedOnly, GenPart::Both]).clone()),
                14 => Fault::GeneratorG {
                    k: rng.usize_below(ext),
                    part: rng.pick(&[GenPart::PointOnly, GenPart::CompressedOnly, GenPart::Both]).clone(),
                },
                _ => Fault::Truncate(64),
            }
        })
        .collect()
}

impl Check for C02 {
    type Scenario = Scenario;

    fn id(&self) -> &'static str {
        "C02"
    }

    fn level(&self) -> &'static str {
        "exploration"
    }

    fn rule(&self) -> String {
        "each seeded run delivers 1-4 messages to a simulated verifier: honest proofs, honest proofs with 1-2 channel faults of every kind (bit flip, scalar/point replacement incl. identity and undecodable, round count +-1, commitment replacement/swap, promise changes, context, extension tag, bit length, generators), and proofs crafted from fresh group elements and random scalars (also with a wrong round count); the Fiat-Shamir challenges the verifier actually drew are read from the merlin tap by ordinal and fed to an independent unoptimised evaluation of the published relation (explicit y-powers, explicit d vector, generators folded by definition, commitments shifted by promises); free module: the verifier's residual (result of its final multiscalar multiplication) must equal w * reference residual coefficient by coefficient (batch: sum of w_i * reference_i with w_i read from the B_i scalar); Ristretto: verdicts must agree; shape defects must be refused; one evaluation = one verify_batch call compared with the reference; non-trivial = a fault or crafted proof or batch; distinct = distinct event-log hashes Adversarially structured follow-up: after every accepted honest batch the first and last member receive offsetting defects on one d1 coordinate tuned to factors the verifier was seen to use (both at once, or one member first and the other against the factors then observed); the reference says each member fails, so the batch must be rejected. One scenario in six runs under caller-supplied, well-formed Pedersen generators with an unusual relationship (two equal, one twice another, one equal to a vector generator, H = -G_0).".into()
    }

    fn assumptions(&self) -> Vec<String> {
        vec![
            "the reference (refmodel.rs) is the harness's reading of the Bulletproofs+ paper and RFC-0181; on the unchanged tree it agrees with the library on honest, faulted and crafted proofs".into(),
            "agreement is decided at the sampled challenge points (Schwartz-Zippel over a 2^252 field): a wrong coefficient survives a sample with negligible probability".into(),
            "using the tapped challenges deliberately excludes transcript-layout faults (C04) and this check does not prove knowledge soundness of Bulletproofs+ itself".into(),
            "vector generators are taken from the statement's parameters (their derivation is C11)".into(),
        ]
    }

    fn components(&self) -> Value {
        super::components_native()
    }

    fn runs(&self, tier: Tier) -> u64 {
        match tier {
            Tier::Quick => 8_000,
            Tier::Thorough => 600_000,
        }
    }

    fn generate(&self, rng: &mut SimRng, tier: Tier, index: u64) -> Scenario {
        let ristretto = index % 10 == 9;
        let max_full = match (ristretto, tier) {
            (true, Tier::Quick) => 32,
            (true, Tier::Thorough) => 128,
            (false, Tier::Quick) => 128,
            (false, Tier::Thorough) => 512,
        };
        let mut cfg;
        loop {
            cfg = Config::generate(rng, max_full, 16);
            if cfg.full_length() >= 2 {
                break;
            }
        }
        // m = 8 and 16 exercise the closed-form d-sum: keep them frequent
        if !ristretto && index % 7 == 3 {
            cfg.m = *rng.pick(&[8usize, 16]);
            cfg.bits = cfg.bits.min(max_full / cfg.m).max(1);
            cfg.cap = cfg.m;
        }
        let n_members = if ristretto { 1 } else { *rng.pick(&[1usize, 1, 1, 2, 3, 4]) };
        let mut members = Vec::new();
        for mi in 0..n_members {
            let (m, cap) = if mi == 0 {
                (cfg.m, cfg.cap)
            } else {
                let m = *rng.pick(&[1usize, 2, 4]);
                let m = if cfg.bits * m > max_full || cfg.bits * m < 2 { cfg.m } else { m };
                (m, if rng.chance(1, 3) { (m * 2).min(32) } else { m })
            };
            let c = Config { bits: cfg.bits, m, cap, ext: cfg.ext };
            let wit = WitnessSpec::generate(rng, &c, true);
            let source = match rng.below(10) {
                0 | 1 => Source::Honest,
                6 => {
                    let extra_rounds = *rng.pick(&[0usize, 1, 1, 2]);
                    let kind = if extra_rounds == 0 { *rng.pick(&[0u8, 0, 0, 1, 3]) } else { *rng.pick(&[0u8, 1, 2, 3]) };
                    Source::Forged { seed: rng.next_u64(), extra_rounds, kind }
                },
                2..=5 => Source::Faulted { faults: gen_faults(rng, cfg.ext, m, c.rounds(), n_members == 1), fault_seed: rng.next_u64() },
                _ => Source::Crafted { seed: rng.next_u64(), rounds_delta: *rng.pick(&[0i32, 0, 0, 0, 0, 1, -1]) },
            };
            members.push(MemberSpec { m, cap, wit, ctx: Context::generate(rng), rng_seed: rng.next_u64(), source, owner_seed_on_aggregate: rng.chance(1, 3) });
            // duplicate delivery: the same proof and commitments again, right behind, under a
            // statement or context that differs
            if n_members > 1 && mi + 1 < n_members && rng.chance(1, 5) {
                let mut twin = members.last().unwrap().clone();
                twin.source = Source::Faulted {
                    faults: vec![rng
                        .pick(&[
                            Fault::Promise { j: 0, with: PromiseRepl::PlusOne },
                            Fault::Promise { j: 0, with: PromiseRepl::Toggle },
                            Fault::ContextExtra,
                            Fault::ContextLabel,
                        ])
                        .clone()],
                    fault_seed: rng.next_u64(),
                };
                if matches!(members.last().unwrap().source, Source::Honest) {
                    members.push(twin);
                }
            }
        }
        // a quarter of the multi-member batches is entirely honest (the tuned-pair follow-up needs an accepted batch)
        if members.len() >= 2 && rng.chance(1, 4) {
            members.iter_mut().for_each(|m| m.source = Source::Honest);
        }
        Scenario {
            group: if ristretto { "ristretto".into() } else { "free".into() },
            bits: cfg.bits,
            ext: cfg.ext,
            members,
            action: rng.usize_below(3),
            pc_variant: if rng.chance(1, 6) { 1 + rng.below(5) as u8 } else { 0 },
        }
    }

    fn execute(&self, sc: &Scenario, st: &mut RunStats) -> Vec<Violation> {
        if sc.pc_variant != 0 {
            st.fault("caller_supplied_related_generators");
        }
        for m in &sc.members {
            match &m.source {
                Source::Honest => {},
                Source::Faulted { faults, .. } => {
                    for f in faults {
                        st.fault(f.kind());
                    }
                },
                Source::Forged { extra_rounds, kind, .. } => {
                    st.fault("forged_by_dishonest_prover");
                    if *extra_rounds > 0 {
                        st.fault("forged_with_surplus_rounds");
                    } else if *kind != 0 {
                        st.fault("forged_out_of_range_ordinary_rounds");
                    }
                },
                Source::Crafted { rounds_delta, .. } => {
                    st.fault("crafted_proof");
                    if *rounds_delta != 0 {
                        st.fault("crafted_wrong_round_count");
                    }
                },
            }
            if m.m >= 8 {
                st.probe("m_ge_8");
            }
            if m.m >= 2 && m.owner_seed_on_aggregate {
                st.probe("aggregated_statement_carrying_a_seed");
            }
            if m.cap > m.m {
                st.probe("capacity_gt_m");
            }
            if m.wit.promises.iter().any(|p| p.unwrap_or(0) > 0) {
                st.probe("nonzero_promise");
            }
        }
        st.probe(&format!("ext_{}", sc.ext));
        if sc.members.windows(2).any(|w| w[0].rng_seed == w[1].rng_seed && matches!(w[0].source, Source::Honest)) {
            st.probe("honest_member_followed_by_altered_duplicate");
        }
        if sc.group == "free" {
            run_free(sc, st)
        } else {
            run_ristretto(sc, st)
        }
    }

    fn shrink(&self, sc: &Scenario) -> Vec<Scenario> {
        let mut v = Vec::new();
        if sc.pc_variant != 0 {
            let mut s = sc.clone();
            s.pc_variant = 0;
            v.push(s);
        }
        if sc.members.len() > 1 {
            for i in 0..sc.members.len() {
                let mut s = sc.clone();
                s.members = vec![sc.members[i].clone()];
                v.push(s);
            }
            for i in 0..sc.members.len() {
                let mut s = sc.clone();
                s.members.remove(i);
                v.push(s);
            }
        }
        if sc.group != "free" {
            let mut s = sc.clone();
            s.group = "free".into();
            v.push(s);
        }
        for (i, m) in sc.members.iter().enumerate() {
            match &m.source {
                Source::Faulted { faults, .. } => {
                    let mut s = sc.clone();
                    s.members[i].source = Source::Honest;
                    v.push(s);
                    if faults.len() > 1 {
                        for f in 0..faults.len() {
                            let mut s = sc.clone();
                            if let Source::Faulted { faults, .. } = &mut s.members[i].source {
                                faults.remove(f);
                            }
                            v.push(s);
                        }
                    }
                },
                Source::Crafted { .. } => {
                    let mut s = sc.clone();
                    s.members[i].source = Source::Honest;
                    v.push(s);
                },
                Source::Forged { seed, extra_rounds, kind } => {
                    if *extra_rounds > 1 {
                        let mut s = sc.clone();
                        s.members[i].source = Source::Forged { seed: *seed, extra_rounds: extra_rounds - 1, kind: *kind };
                        v.push(s);
                    }
                    if *kind > 1 {
                        let mut s = sc.clone();
                        s.members[i].source = Source::Forged { seed: *seed, extra_rounds: *extra_rounds, kind: 1 };
                        v.push(s);
                    }
                },
                Source::Honest => {},
            }
            if m.cap > m.m {
                let mut s = sc.clone();
                s.members[i].cap = m.m;
                v.push(s);
            }
            if m.m > 1 && sc.bits * m.m / 2 >= 2 {
                let mut s = sc.clone();
                s.members[i].m = m.m / 2;
                s.members[i].cap = s.members[i].cap.max(m.m / 2);
                s.members[i].wit.values.truncate(m.m / 2);
                s.members[i].wit.promises.truncate(m.m / 2);
                if let Source::Faulted { .. } = &m.source {
                    // fault positions may no longer exist; let apply_fault skip them
                }
                v.push(s);
            }
            if m.wit.promises.iter().any(|p| p.is_some()) {
                let mut s = sc.clone();
                s.members[i].wit.promises.iter_mut().for_each(|p| *p = None);
                v.push(s);
            }
        }
        if sc.ext > 1 {
            let mut s = sc.clone();
            s.ext = 1;
            v.push(s);
        }
        if sc.bits > 2 {
            let mut s = sc.clone();
            s.bits /= 2;
            let max = (1u64 << s.bits) - 1;
            for m in s.members.iter_mut() {
                for (val, p) in m.wit.values.iter_mut().zip(m.wit.promises.iter_mut()) {
                    *val &= max;
                    if let Some(pp) = p {
                        *pp = (*pp).min(*val);
                    }
                }
            }
            v.push(s);
        }
        v
    }

    fn required_probes(&self, _tier: Tier) -> Vec<&'static str> {
        vec![
            "accepted", "rejected", "singleton_residual_compared", "nonzero_residual_compared", "batch_residual_compared",
            "shape_rejection_expected", "crafted_proof", "crafted_wrong_round_count", "m_ge_8", "capacity_gt_m",
            "nonzero_promise", "ext_1", "ext_2", "ext_3", "ext_4", "ext_5", "ext_6", "flip_bit", "replace_scalar",
            "replace_point", "drop_round", "add_round", "replace_commitment", "promise", "swap_commitments", "bits",
            "generator_h", "generator_g", "retag_extension", "honest_member_followed_by_altered_duplicate", "aggregated_statement_carrying_a_seed", "tuned_cancelling_pair_resubmitted", "tuned_pair_one_member_first", "caller_supplied_related_generators",
            "forged_by_dishonest_prover", "forged_with_surplus_rounds", "forger_faithful_accepted", "forger_faithful_accepted_aggregated",
            "forger_faithful_accepted_extended", "surplus_round_forgery_refused",
        ]
    }
}

#[allow(dead_code)]
fn _unused<G: Group>(p: &G) -> <G as Compressable>::Compressed {
    p.compress()
}
