//! C20 — secrets are wiped from heap memory before it is released.
//!
//! Seams: the global allocator (contents of every freed block while armed) and crash points
//! (`FaultRng::PanicAt(i)` at every call site of the external RNG, plus the error-return path that
//! is reached after the transcript already holds the witness bytes).
//!
//! Runs on real Ristretto only: over the free module a point's coordinates *are* scalars, so a
//! freed `FreePoint` holding a commitment would contain blinding-factor images by construction —
//! a harness artefact, not library behaviour.

use std::mem::MaybeUninit;

use curve25519_dalek::{ristretto::RistrettoPoint, scalar::Scalar};
use serde::{Deserialize, Serialize};
use serde_json::{json, Value};
use tari_bulletproofs_plus::{
    commitment_opening::CommitmentOpening,
    range_statement::RangeStatement,
    range_witness::RangeWitness,
};
use zeroize::Zeroize;

use crate::{
    alloc,
    faultrng::{FaultRng, RngMode},
    group::Group,
    runner::{Check, RunStats, Tier, Violation},
    simrng::SimRng,
    world::*,
};

type G = RistrettoPoint;

#[derive(Clone, Debug, Serialize, Deserialize, PartialEq, Eq)]
pub enum Crash {
    None,
    /// the external RNG panics at its i-th call (1-based)
    RngPanicAt(usize),
    /// promise > value: the prover returns Err after the transcript RNG was keyed with the witness
    PromiseAboveValue,
    /// the statement's first commitment does not match the witness: the prover returns Err early
    CommitmentMismatch,
    /// the proof is corrupted (r1 changed) before verification: a recovering verifier computes the
    /// masks and then returns Err with them live
    CorruptedBeforeVerify,
}

#[derive(Clone, Debug, Serialize, Deserialize)]
pub struct Scenario {
    pub cfg: Config,
    pub wit: WitnessSpec,
    pub ctx: Context,
    pub rng_seed: u64,
    pub crash: Crash,
    /// 1 = RecoverAndVerify, 2 = RecoverOnly, 0 = VerifyOnly
    pub action: usize,
    pub clone_witness: bool,
    pub clone_statement: bool,
    /// order in which the owning objects are dropped (permutation of 0..6)
    pub drop_order: Vec<usize>,
    /// seeds of extra single-commitment members, each with its own recovery seed, that are proved
    /// and then verified together with the primary proof in ONE recovering verify_batch call
    #[serde(default)]
    pub companions: Vec<u64>,
    /// position of the primary proof inside that batch
    #[serde(default)]
    pub primary_position: usize,
    /// also exercise `Clone::clone_from` on the owning types: a narrower scratch opening / witness
    /// that already holds a secret is overwritten with the real one
    #[serde(default)]
    pub use_clone_from: bool,
    /// a clone of the witness has an opening moved out of its public `openings` vector before it is
    /// dropped: 0 = no, 1 = pop, 2 = remove(0), 3 = swap_remove(0), 4 = drain(..1), 5 = split_off(1)
    #[serde(default)]
    pub move_out: u8,
    /// a second vector of the same openings in which one opening (not the first) has another number of
    /// blinding factors is handed to the witness constructor, which must refuse it and release it clean:
    /// 0 = no, 1 = last opening one factor short, 2 = opening 1 one factor short, 3 = last opening with
    /// one factor more
    #[serde(default)]
    pub rejected_witness: u8,
    /// the recovering batch gets one more, LAST member that the verifier refuses on structural grounds after
    /// the masks of the earlier members were recovered: 0 = no, 1 = one folding round too many, 2 = an
    /// undecodable point in the first round, 3 = a proof for another extension degree
    #[serde(default)]
    pub malformed_last: u8,
}

pub struct C20;

const K_BLIND: u8 = 1;
const K_SEED: u8 = 2;
const K_VALUE: u8 = 3;
const K_BITS: u8 = 4;

fn kind_name(k: u8) -> &'static str {
    match k {
        K_BLIND => "blinding_factor_or_mask",
        K_SEED => "recovery_seed",
        K_VALUE => "value_u64",
        K_BITS => "bit_decomposition_of_a_value",
        _ => "?",
    }
}

/// innermost frame of the library in a captured backtrace
fn library_frame(frames: &[String]) -> String {
    for f in frames {
        if f.contains("tari_bulletproofs_plus::") {
            // lines look like "12: tari_bulletproofs_plus::utils::generic::nonce"
            let s = f.splitn(2, ": ").nth(1).unwrap_or(f);
            // strip hash suffix
            let s = s.rsplitn(2, "::h").last().unwrap_or(s);
            return s.to_string();
        }
    }
    "outside tari_bulletproofs_plus".to_string()
}

pub fn profile_tag() -> String {
    std::env::var("BPSIM_PROFILE").unwrap_or_else(|_| "release".into())
}

fn life_cycle(sc: &Scenario, st: &mut RunStats) -> Vec<Violation> {
    let mut out = Vec::new();
    let cfg = &sc.cfg;
    st.group(G::NAME);
    // ---- harness-side preparation: nothing secret lives in harness heap blocks ----------------
    let params = std_params::<G>(cfg.bits, cfg.cap, cfg.ext);
    let mut secrets_blind = [[Scalar::ZERO; 6]; 32];
    for j in 0..cfg.m {
        for k in 0..cfg.ext {
            secrets_blind[j][k] = sc.wit.blinding(j, k);
        }
    }
    let seed = sc.wit.seed();
    alloc::clear_patterns();
    for j in 0..cfg.m {
        for k in 0..cfg.ext {
            alloc::register(secrets_blind[j][k].as_bytes(), K_BLIND);
        }
        if cfg.bits == 64 && sc.wit.values[j].to_le_bytes().iter().filter(|b| **b != 0 && **b != 0xff).count() >= 6 {
            alloc::register(&sc.wit.values[j].to_le_bytes(), K_VALUE);
            st.probe("value_pattern_registered");
        }
    }
    if let Some(s) = &seed {
        alloc::register(s.as_bytes(), K_SEED);
    }
    // the scalar image of the bit decomposition of (value - promise) for the first openings: 4 to 8
    // consecutive 32-byte scalars, each 0 or 1 (a_L), or 0 or -1 (a_R); only registered when the
    // window contains both kinds of bit, so that neither a wiped nor a constant buffer can match
    for j in 0..cfg.m.min(2) {
        let off = sc.wit.values[j].wrapping_sub(sc.wit.promises[j].unwrap_or(0));
        let w = cfg.bits.min(8);
        if w < 4 || sc.wit.promises[j].unwrap_or(0) > sc.wit.values[j] {
            continue;
        }
        let bits: Vec<u64> = (0..w).map(|i| (off >> i) & 1).collect();
        if bits.iter().all(|b| *b == 0) || bits.iter().all(|b| *b == 1) {
            continue;
        }
        let mut al = Vec::with_capacity(32 * w);
        let mut ar = Vec::with_capacity(32 * w);
        for b in &bits {
            al.extend_from_slice(Scalar::from(*b).as_bytes());
            ar.extend_from_slice((Scalar::from(*b) - Scalar::ONE).as_bytes());
        }
        // a_L image only with at least two 1-bits: "01 00 .. 00" alone is also what a non-adjacent-form
        // digit table of the scalar one looks like inside the curve library's variable-time MSM
        if bits.iter().filter(|b| **b == 1).count() >= 2 {
            alloc::register_long(&al, K_BITS);
        }
        // a_R image: contains the 32-byte encoding of -1 wherever the bit is 0, which nothing else produces
        alloc::register_long(&ar, K_BITS);
        st.probe("bit_image_registered");
    }
    let mut comp_blind = [[Scalar::ZERO; 6]; 4];
    let mut comp_seed = [Scalar::ZERO; 4];
    let n_comp = sc.companions.len().min(4);
    for (c, cs) in sc.companions.iter().take(4).enumerate() {
        for k in 0..cfg.ext {
            comp_blind[c][k] = scalar_from_seed("c20comp", *cs, k as u64);
            alloc::register(comp_blind[c][k].as_bytes(), K_BLIND);
        }
        comp_seed[c] = scalar_from_seed("c20compseed", *cs, 0);
        alloc::register(comp_seed[c].as_bytes(), K_SEED);
    }
    let scratch_secret = scalar_from_seed("c20scratch", sc.rng_seed, 0);
    if sc.use_clone_from {
        alloc::register(scratch_secret.as_bytes(), K_BLIND);
    }
    let comp_params = std_params::<G>(cfg.bits, 1, cfg.ext);
    let comp_commitments: Vec<G> = (0..n_comp)
        .map(|c| G::commit(comp_params.pc_gens(), &Scalar::from((c % 2) as u64), &comp_blind[c][..cfg.ext]).unwrap())
        .collect();
    let comp_ctx = Context { label: 6, extra: None };
    let mut promises = sc.wit.promises.clone();
    if sc.crash == Crash::PromiseAboveValue {
        // make promise[last] exceed the value (value is kept below the maximum by the generator)
        let j = cfg.m - 1;
        promises[j] = Some(sc.wit.values[j] + 1);
    }
    let mut commitments: Vec<G> = (0..cfg.m)
        .map(|j| G::commit(params.pc_gens(), &Scalar::from(sc.wit.values[j]), &secrets_blind[j][..cfg.ext]).unwrap())
        .collect();
    if sc.crash == Crash::CommitmentMismatch {
        commitments[0] = G::sum(&commitments[0], params.h_base());
    }
    let mode = match sc.crash {
        Crash::RngPanicAt(i) => RngMode::PanicAt(i, sc.rng_seed),
        _ => RngMode::Healthy(sc.rng_seed),
    };
    let mut frng = FaultRng::new(mode);
    frng.served.reserve(4096);
    let action = action_from(sc.action);

    // ---- armed section: the scripted life cycle -----------------------------------------------
    alloc::arm();
    paint_stack(&NEUTRAL_STACK);
    let mut openings = Vec::with_capacity(cfg.m);
    for j in 0..cfg.m {
        let mut r = Vec::with_capacity(cfg.ext);
        for k in 0..cfg.ext {
            r.push(secrets_blind[j][k]);
        }
        openings.push(CommitmentOpening::new(sc.wit.values[j], r));
    }
    let witness = RangeWitness::init(openings).expect("witness");
    if sc.use_clone_from {
        // a one-blinding scratch opening and a one-opening scratch witness, each holding a secret,
        // are overwritten in place with the (wider) real ones
        let mut scratch = CommitmentOpening::new(7, {
            let mut v = Vec::with_capacity(1);
            v.push(scratch_secret);
            v
        });
        scratch.clone_from(&witness.openings[0]);
        let mut scratch_w = RangeWitness::init({
            let mut o = Vec::with_capacity(1);
            o.push(CommitmentOpening::new(9, {
                let mut v = Vec::with_capacity(1);
                v.push(scratch_secret);
                v
            }));
            o
        })
        .expect("witness");
        scratch_w.clone_from(&witness);
        scratch_w.openings.clone_from(&witness.openings);
        st.probe("clone_from_exercised");
        drop(scratch);
        drop(scratch_w);
    }
    if sc.rejected_witness > 0 && cfg.m >= 2 && (cfg.ext >= 2 || sc.rejected_witness == 3) {
        let odd = if sc.rejected_witness == 2 { 1 } else { cfg.m - 1 };
        let mut ragged = Vec::with_capacity(cfg.m);
        for j in 0..cfg.m {
            let n = if j != odd {
                cfg.ext
            } else if sc.rejected_witness == 3 {
                cfg.ext + 1
            } else {
                cfg.ext - 1
            };
            let mut r = Vec::with_capacity(n);
            for k in 0..n {
                r.push(secrets_blind[j][k.min(cfg.ext - 1)]);
            }
            ragged.push(CommitmentOpening::new(sc.wit.values[j], r));
        }
        if RangeWitness::init(ragged).is_err() {
            st.probe("witness_constructor_refused_ragged_openings");
        }
    }
    if sc.move_out > 0 && cfg.m >= 2 {
        // the vector's buffer holds the values inline; a moved-out slot keeps a stale image that only a
        // wipe of the whole capacity removes
        let mut w3 = witness.clone();
        match sc.move_out {
            1 => drop(w3.openings.pop()),
            2 => drop(w3.openings.remove(0)),
            3 => drop(w3.openings.swap_remove(0)),
            4 => w3.openings.drain(..1).for_each(drop),
            _ => drop(w3.openings.split_off(1)),
        }
        st.probe("opening_moved_out_before_drop");
        drop(w3);
    }
    let witness2 = if sc.clone_witness { Some(witness.clone()) } else { None };
    let statement = RangeStatement::init(params.clone(), commitments.clone(), promises.clone(), seed).expect("statement");
    let statement2 = if sc.clone_statement { Some(statement.clone()) } else { None };
    paint_stack(&NEUTRAL_STACK);
    let proved = prove::<G>(&sc.ctx, &statement, &witness, &mut frng);
    let mut crashed = false;
    let mut proof = None;
    match proved {
        Ok(Ok(p)) => proof = Some(p),
        Ok(Err(_)) => {
            if sc.crash == Crash::PromiseAboveValue {
                st.fault("error_return_after_witness_absorbed");
            }
            if sc.crash == Crash::CommitmentMismatch {
                st.fault("error_return_commitment_mismatch");
            }
        },
        Err(Caught::InjectedRng(i)) => {
            crashed = true;
            st.fault(&format!("rng_panic_at_call_{}", i));
            st.probe("panic_unwound_with_secrets_live");
        },
        Err(_) => {},
    }
    if sc.crash == Crash::CorruptedBeforeVerify {
        if let Some(p) = &proof {
            if let Some(mut parts) = ProofParts::of::<G>(p) {
                parts.r1[0] ^= 1;
                if let Ok(q) = G::from_bytes(&parts.to_bytes()) {
                    proof = Some(q);
                }
            }
        }
    }
    let mut recovered = None;
    if let Some(p) = &proof {
        paint_stack(&NEUTRAL_STACK);
        let r = verify_one::<G>(&sc.ctx, &statement, p, action);
        if sc.crash == Crash::CorruptedBeforeVerify && matches!(r, Ok(Err(_))) {
            st.fault("verifier_error_return_with_masks_live");
        }
        if let Ok(Ok(m)) = r {
            if m.iter().any(|x| x.is_some()) {
                st.probe("mask_recovered");
            }
            recovered = Some(m);
        }
    }
    // one recovering verify_batch call over the primary proof and the seeded companions
    let mut batch_objects = None;
    if let (Some(p), true) = (&proof, n_comp > 0) {
        // (room for the primary and for a refused last member: a reallocation of this harness vector would
        // release a block holding the statements' inline seeds)
        let mut sts: Vec<RangeStatement<G>> = Vec::with_capacity(n_comp + 2);
        let mut prs = Vec::with_capacity(n_comp + 2);
        let mut wits = Vec::with_capacity(n_comp);
        let mut ok = true;
        for c in 0..n_comp {
            let mut r = Vec::with_capacity(cfg.ext);
            for k in 0..cfg.ext {
                r.push(comp_blind[c][k]);
            }
            let w = RangeWitness::init(vec![CommitmentOpening::new((c % 2) as u64, r)]).expect("witness");
            let s = RangeStatement::init(comp_params.clone(), vec![comp_commitments[c].clone()], vec![None], Some(comp_seed[c]))
                .expect("statement");
            let mut crng = FaultRng::new(RngMode::Healthy(sc.rng_seed ^ (c as u64 + 1)));
            paint_stack(&NEUTRAL_STACK);
            match prove::<G>(&comp_ctx, &s, &w, &mut crng) {
                Ok(Ok(cp)) => {
                    sts.push(s);
                    prs.push(cp);
                    wits.push(w);
                },
                _ => ok = false,
            }
        }
        if ok {
            let pos = sc.primary_position.min(sts.len());
            sts.insert(pos, statement.clone());
            prs.insert(pos, p.clone());
            let mut ctxs: Vec<&Context> = vec![&comp_ctx; n_comp];
            ctxs.insert(pos, &sc.ctx);
            let a = if action == tari_bulletproofs_plus::range_proof::VerifyAction::VerifyOnly {
                tari_bulletproofs_plus::range_proof::VerifyAction::RecoverAndVerify
            } else {
                action
            };
            if sc.malformed_last > 0 {
                if let Some(mut parts) = ProofParts::of::<G>(&prs[if pos == 0 { 1 } else { 0 }]) {
                    match sc.malformed_last {
                        1 => {
                            let extra = parts.lr.first().copied().unwrap_or((parts.a, parts.a1));
                            parts.lr.push(extra);
                        },
                        2 if !parts.lr.is_empty() => parts.lr[0].0 = [0xff; 32],
                        _ => {
                            if parts.ext_tag < 6 {
                                parts.ext_tag += 1;
                                parts.d1.push([0u8; 32]);
                            } else {
                                parts.ext_tag -= 1;
                                parts.d1.pop();
                            }
                        },
                    }
                    if let Ok(bad) = G::from_bytes(&parts.to_bytes()) {
                        // the refused member carries no seed of its own
                        let s = RangeStatement::init(comp_params.clone(), vec![comp_commitments[0].clone()], vec![None], None)
                            .expect("statement");
                        sts.push(s);
                        prs.push(bad);
                        ctxs.push(&comp_ctx);
                    }
                }
            }
            paint_stack(&NEUTRAL_STACK);
            let r = verify::<G>(&ctxs, &sts, &prs, a);
            if sc.malformed_last > 0 && matches!(r, Ok(Err(_))) {
                st.fault("verifier_refuses_a_later_member_with_masks_recovered");
            }
            if let Ok(Ok(m)) = &r {
                if m.iter().filter(|x| x.is_some()).count() >= 2 {
                    st.probe("several_masks_recovered_in_one_batch");
                }
            }
            batch_objects = Some((sts, prs, wits, r));
        }
    }
    // drop everything in the scheduled order
    paint_stack(&NEUTRAL_STACK);
    let mut witness = Some(witness);
    let mut witness2 = witness2;
    let mut statement = Some(statement);
    let mut statement2 = statement2;
    let mut proof = proof;
    for d in &sc.drop_order {
        match d {
            0 => drop(witness.take()),
            1 => drop(witness2.take()),
            2 => drop(statement.take()),
            3 => drop(statement2.take()),
            4 => drop(proof.take()),
            _ => drop(recovered.take()),
        }
    }
    drop((witness, witness2, statement, statement2, proof, recovered));
    drop(batch_objects);
    let (freed_blocks, scanned) = alloc::disarm();
    // ---- end of armed section ------------------------------------------------------------------
    st.evals += freed_blocks as u64;
    st.probe_n("freed_blocks_scanned", freed_blocks as u64);
    st.probe_n("freed_bytes_scanned", scanned as u64);
    st.steps += frng.calls as u64;
    st.event(format!(
        "life cycle cfg={:?} seed={} crash={:?} action={} crashed={} rng_calls={} drop={:?}",
        cfg,
        seed.is_some(),
        sc.crash,
        action_name(action),
        crashed,
        frng.calls,
        sc.drop_order
    ));
    let hits = alloc::take_hits();
    let mut seen = std::collections::BTreeSet::new();
    for h in &hits {
        let frame = library_frame(&h.frames);
        let key = format!("{}@{}", kind_name(h.kind), frame);
        if seen.insert(key.clone()) {
            st.event(format!("HIT {} block={}B realloc={}", key, h.block_size, h.via_realloc));
            out.push(Violation::new(
                "freed_block_contains_secret",
                key,
                format!(
                    "a freed heap block of {} bytes{} contains the byte image of a {} (profile {}); innermost library frame: {}; {} such block(s) in this life cycle; cfg={:?} crash={:?}",
                    h.block_size,
                    if h.via_realloc { " (old block of a realloc)" } else { "" },
                    kind_name(h.kind),
                    profile_tag(),
                    frame,
                    hits.len(),
                    cfg,
                    sc.crash
                ),
            ));
        }
    }

    // ---- inline seed of a dropped statement ----------------------------------------------------
    // The stale contents of the stack at the moment of the drop are a source of nondeterminism
    // (whatever a drop implementation leaves unspecified is filled from there), so the simulator
    // owns them: run once over a neutral stack and once over a stack that still holds copies of
    // the seed, as it does right after `RangeStatement::init(.., Some(seed))` or a prover run.
    if let Some(s) = &seed {
        let size = std::mem::size_of::<RangeStatement<G>>();
        for (paint_name, pat) in [("neutral", NEUTRAL_STACK), ("stale_seed_copies", *s.as_bytes())] {
            let st2 =
                RangeStatement::init(params.clone(), commitments.clone(), sc.wit.promises.clone(), Some(*s)).unwrap();
            let mut slot: Box<MaybeUninit<RangeStatement<G>>> = Box::new(MaybeUninit::uninit());
            unsafe { std::ptr::write_bytes(slot.as_mut_ptr() as *mut u8, 0, size) };
            slot.write(st2);
            let lo = &s.as_bytes()[..16];
            let hi = &s.as_bytes()[16..];
            let scan = |slot: &Box<MaybeUninit<RangeStatement<G>>>| -> (Option<usize>, Option<usize>) {
                let bytes = unsafe { std::slice::from_raw_parts(slot.as_ptr() as *const u8, size) };
                (
                    bytes.windows(32).position(|w| w == s.as_bytes()),
                    bytes.windows(16).position(|w| w == lo || w == hi),
                )
            };
            let before = scan(&slot);
            paint_stack(&pat);
            unsafe { std::ptr::drop_in_place(slot.as_mut_ptr()) };
            let after = scan(&slot);
            st.evals += 1;
            st.fault(&format!("stale_stack_{}", paint_name));
            st.event(format!(
                "inline seed stack={} before_drop={:?} after_drop={:?}",
                paint_name, before, after
            ));
            if before.0.is_some() {
                st.probe("inline_seed_observed_before_drop");
            }
            if after.0.is_some() || after.1.is_some() {
                out.push(Violation::new(
                    "statement_seed_not_cleared_on_drop",
                    format!("RangeStatement::drop stack={}", paint_name),
                    format!(
                        "after drop_in_place the {} bytes of a RangeStatement contain {} of its recovery seed (at offset {:?}; the seed field was at {:?}); stack before the drop: {}; profile {}",
                        size,
                        if after.0.is_some() { "the full 32-byte image" } else { "a 16-byte half image" },
                        after.0.or(after.1),
                        before.0,
                        paint_name,
                        profile_tag()
                    ),
                ));
                break;
            }
        }
    }
    let mut z = secrets_blind;
    z.iter_mut().for_each(|r| r.iter_mut().for_each(|s| s.zeroize()));
    out
}

fn crash_points(cfg: &Config) -> Vec<Crash> {
    let mut v = vec![Crash::None, Crash::PromiseAboveValue, Crash::CommitmentMismatch];
    if cfg.full_length() >= 2 {
        v.push(Crash::CorruptedBeforeVerify);
    }
    for i in 1..=(3 + cfg.rounds()) {
        v.push(Crash::RngPanicAt(i));
    }
    v
}

fn lattice(tier: Tier) -> Vec<(Config, bool, Crash)> {
    let mut v = Vec::new();
    let cfgs: Vec<Config> = match tier {
        Tier::Quick => vec![
            Config { bits: 2, m: 1, cap: 2, ext: 5 },
            Config { bits: 8, m: 1, cap: 1, ext: 1 },
            Config { bits: 64, m: 1, cap: 1, ext: 2 },
            Config { bits: 64, m: 2, cap: 2, ext: 1 },
            Config { bits: 2, m: 2, cap: 4, ext: 3 },
            Config { bits: 1, m: 1, cap: 1, ext: 6 },
            Config { bits: 4, m: 4, cap: 4, ext: 1 },
        ],
        Tier::Thorough => {
            let mut c = Vec::new();
            for bits in [1usize, 2, 8, 64] {
                for ext in 1..=6usize {
                    for (m, cap) in [(1usize, 1usize), (1, 2), (2, 2), (4, 8)] {
                        if bits * m <= 128 {
                            c.push(Config { bits, m, cap, ext });
                        }
                    }
                }
            }
            c
        },
    };
    for cfg in cfgs {
        for seed in [true, false] {
            if seed && cfg.m > 1 {
                continue;
            }
            for c in crash_points(&cfg) {
                v.push((cfg, seed, c));
            }
        }
    }
    v
}

const REPS_QUICK: u64 = 3;
const REPS_THOROUGH: u64 = 4;

impl Check for C20 {
    type Scenario = Scenario;

    fn id(&self) -> &'static str {
        "C20"
    }

    fn level(&self) -> &'static str {
        "fault_enumeration"
    }

    fn rule(&self) -> String {
        "enumeration of (configuration, seed present?, crash point) where crash points are: none, the prover's error return after the witness was absorbed, and a panic of the external RNG at each of its 3+rounds call sites; each lattice point is executed several times with seeded values, drop orders, clone choices, clone_from targets, openings moved out of a witness clone before its drop, ragged openings refused by the witness constructor, a structurally refused last member of a recovering batch, and recovery modes; one evaluation = one heap block freed while armed and scanned for the registered secret images (+1 per inline-seed check); non-trivial = a crash point or error path actually fired; distinct = distinct event-log hashes. Executed twice: library at opt-level 0 (heap behaviour as the source states it) and at release.".into()
    }

    fn assumptions(&self) -> Vec<String> {
        vec![
            "secrets are recognised by their exact 32-byte (scalars) or 8-byte (64-bit values with >= 6 non-trivial bytes) little-endian images; transformed copies (radix-16 digits, NAF) are out of scope".into(),
            "the harness keeps its own copies of secrets on the stack / in library-owned zeroizing containers only; the allocator wrapper wipes every freed block so stale bytes cannot resurface".into(),
            "stack and register residues are out of scope (the property is about heap buffers)".into(),
            "Ristretto only: over the free module commitments expose blinding factors as coordinates by construction".into(),
        ]
    }

    fn components(&self) -> Value {
        let mut c = super::components_native();
        c["profile"] = json!(profile_tag());
        c
    }

    fn runs(&self, tier: Tier) -> u64 {
        lattice(tier).len() as u64 * if tier == Tier::Quick { REPS_QUICK } else { REPS_THOROUGH }
    }

    fn generate(&self, rng: &mut SimRng, tier: Tier, index: u64) -> Scenario {
        let lat = lattice(tier);
        let (cfg, with_seed, crash) = lat[(index as usize) % lat.len()].clone();
        let max: u64 = if cfg.bits == 64 { u64::MAX } else { (1u64 << cfg.bits) - 1 };
        let mut values = Vec::new();
        let mut promises = Vec::new();
        for _ in 0..cfg.m {
            // keep value below the maximum so that promise = value + 1 is expressible
            let v = if max == 1 { 0 } else { rng.range(0, max - 1) };
            values.push(v);
            // At 64 bits the value's 8-byte image is a registered pattern. A `None` promise has
            // unspecified payload bytes, and the compiler is free to leave a stale copy of `v`
            // there (observed), which would then sit in the *public* promise vector the harness
            // hands to the library. So 64-bit scenarios use explicit promises only, and never one
            // derived from the value.
            promises.push(match rng.below(3) {
                0 if cfg.bits < 64 => None,
                1 => Some(rng.next_u64() % (v / 2 + 1)),
                _ => Some(0),
            });
        }
        let wit = WitnessSpec {
            values,
            promises,
            blind_seed: rng.next_u64(),
            seed_nonce: if with_seed { Some(rng.next_u64()) } else { None },
            zero_blind: vec![],
            same_as_prev: vec![], same_as_first: vec![],
            special_blind: None,
        };
        let mut drop_order: Vec<usize> = (0..6).collect();
        rng.shuffle(&mut drop_order);
        let companions: Vec<u64> = if crash == Crash::None && (cfg.ext >= 5 || rng.chance(1, 3)) {
            (0..rng.range(1, 3)).map(|_| rng.next_u64()).collect()
        } else {
            vec![]
        };
        Scenario {
            cfg,
            wit,
            ctx: Context::generate(rng),
            rng_seed: rng.next_u64(),
            crash,
            action: if with_seed { 1 + rng.usize_below(2) } else { rng.usize_below(3) },
            clone_witness: rng.chance(1, 2),
            clone_statement: rng.chance(1, 2),
            drop_order,
            companions,
            primary_position: rng.usize_below(4),
            use_clone_from: rng.chance(1, 2),
            move_out: if cfg.m >= 2 && rng.chance(2, 3) { 1 + rng.below(5) as u8 } else { 0 },
            rejected_witness: if cfg.m >= 2 && rng.chance(2, 3) { 1 + rng.below(3) as u8 } else { 0 },
            malformed_last: if rng.chance(1, 2) { 1 + rng.below(3) as u8 } else { 0 },
        }
    }

    fn execute(&self, sc: &Scenario, st: &mut RunStats) -> Vec<Violation> {
        life_cycle(sc, st)
    }

    fn shrink(&self, sc: &Scenario) -> Vec<Scenario> {
        let mut v = Vec::new();
        if sc.crash != Crash::None {
            let mut s = sc.clone();
            s.crash = Crash::None;
            v.push(s);
        }
        if !sc.companions.is_empty() {
            let mut s = sc.clone();
            s.companions.clear();
            v.push(s);
            if sc.companions.len() > 1 {
                let mut s = sc.clone();
                s.companions.truncate(1);
                v.push(s);
            }
        }
        if sc.use_clone_from {
            let mut s = sc.clone();
            s.use_clone_from = false;
            v.push(s);
        }
        if sc.clone_witness || sc.clone_statement {
            let mut s = sc.clone();
            s.clone_witness = false;
            s.clone_statement = false;
            v.push(s);
        }
        if sc.cfg.m > 1 {
            let mut s = sc.clone();
            s.cfg.m = 1;
            s.cfg.cap = 1;
            s.wit.values.truncate(1);
            s.wit.promises.truncate(1);
            v.push(s);
        }
        if sc.cfg.ext > 1 {
            let mut s = sc.clone();
            s.cfg.ext = 1;
            v.push(s);
        }
        if sc.cfg.bits > 2 {
            let mut s = sc.clone();
            s.cfg.bits = 2;
            s.wit.values.iter_mut().for_each(|x| *x &= 1);
            s.wit.promises.iter_mut().for_each(|p| *p = Some(0));
            if let Crash::RngPanicAt(i) = s.crash {
                s.crash = Crash::RngPanicAt(i.min(3 + s.cfg.rounds()));
            }
            v.push(s);
        }
        if sc.action != 0 && sc.wit.seed_nonce.is_none() {
            let mut s = sc.clone();
            s.action = 0;
            v.push(s);
        }
        if sc.drop_order != (0..6).collect::<Vec<_>>() {
            let mut s = sc.clone();
            s.drop_order = (0..6).collect();
            v.push(s);
        }
        v
    }

    fn required_probes(&self, _tier: Tier) -> Vec<&'static str> {
        vec![
            "panic_unwound_with_secrets_live",
            "mask_recovered",
            "error_return_after_witness_absorbed",
            "inline_seed_observed_before_drop",
            "value_pattern_registered",
            "freed_blocks_scanned",
            "several_masks_recovered_in_one_batch",
            "bit_image_registered",
            "clone_from_exercised",
            "opening_moved_out_before_drop",
            "witness_constructor_refused_ragged_openings",
            "verifier_refuses_a_later_member_with_masks_recovered",
            "error_return_commitment_mismatch",
            "verifier_error_return_with_masks_live",
        ]
    }
}
