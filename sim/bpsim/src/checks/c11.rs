//! C11 — generators are distinct, deterministic and derived as specified, on every construction
//! and every thread. Native part: seeded construction orders over the configuration lattice
//! against a reference derivation written in the harness; fresh-process part: first-use order of
//! the lazily initialised statics; schedule part: Miri (see miri.rs and sim/miri-sched).

use curve25519_dalek::scalar::Scalar;
use curve25519_dalek::traits::VartimePrecomputedMultiscalarMul;
use digest::{Digest, ExtendableOutput, Update, XofReader};
use serde::{Deserialize, Serialize};
use serde_json::Value;
use sha3::{Sha3_512, Shake256};
use tari_bulletproofs_plus::traits::FromUniformBytes;

use crate::{
    by_group,
    group::Group,
    runner::{digest, Check, RunStats, Tier, Violation},
    simrng::SimRng,
};

#[derive(Clone, Debug, Serialize, Deserialize)]
pub struct Scenario {
    pub group: String,
    /// constructions in this order: (bits, capacity, extension degree)
    pub order: Vec<(usize, usize, usize)>,
    pub scalar_seed: u64,
}

pub struct C11;

/// reference: k-th (1-based) masking base point
pub fn ref_masking<G: Group>(k: usize) -> G {
    let mut h = Sha3_512::default();
    Digest::update(&mut h, format!("RISTRETTO_MASKING_BASEPOINT_{}", k).as_bytes());
    let out: [u8; 64] = h.finalize().into();
    <G as FromUniformBytes>::from_uniform_bytes(&out)
}

/// reference: first `n` generators of the chain (kind 'G' or 'H', party index)
pub fn ref_chain<G: Group>(kind: u8, party: u32, n: usize) -> Vec<G> {
    let mut sh = Shake256::default();
    sh.update(b"GeneratorsChain");
    let mut label = [kind, 0, 0, 0, 0];
    label[1..5].copy_from_slice(&party.to_le_bytes());
    sh.update(&label);
    let mut rd = sh.finalize_xof();
    (0..n)
        .map(|_| {
            let mut b = [0u8; 64];
            rd.read(&mut b);
            <G as FromUniformBytes>::from_uniform_bytes(&b)
        })
        .collect()
}

fn run<G: Group>(sc: &Scenario, st: &mut RunStats) -> Vec<Violation> {
    let mut out = Vec::new();
    st.group(G::NAME);
    let mut srng = SimRng::new(sc.scalar_seed);
    // earlier parameter sets stay alive while later ones are built and checked (a cache keyed too
    // coarsely could hand a later set something that belongs to an earlier one)
    let mut alive = Vec::new();
    let mut keep = Vec::new();
    for (ci, (bits, cap, ext)) in sc.order.iter().enumerate() {
        let (bits, cap, ext) = (*bits, *cap, *ext);
        // fresh construction every time (no cache): construction order is the point
        let pc = G::pedersen(ext);
        let params = match G::params(bits, cap, pc) {
            Ok(p) => p,
            Err(e) => {
                out.push(Violation::new("harness:params_refused", "setup", format!("{:?}", e)));
                return out;
            },
        };
        st.evals += 1;
        if ci > 0 {
            st.fault("construction_after_other_constructions");
        }
        if bits == 64 && cap == 32 {
            st.probe("full_lattice_point_64_32");
        }
        let key = format!("bits{} cap{} ext{}", bits, cap, ext);
        let gi: Vec<G> = params.gi_base_iter().cloned().collect();
        let hi: Vec<G> = params.hi_base_iter().cloned().collect();
        if gi.len() != bits * cap || hi.len() != bits * cap {
            out.push(Violation::new("generator_count", key, format!("{} G and {} H vector generators for bits {} capacity {}", gi.len(), hi.len(), bits, cap)));
            return out;
        }
        // documented derivation, party by party
        for party in 0..cap {
            let rg = ref_chain::<G>(b'G', party as u32, bits);
            let rh = ref_chain::<G>(b'H', party as u32, bits);
            for j in 0..bits {
                if gi[party * bits + j] != rg[j] {
                    out.push(Violation::new(
                        "generator_differs_from_documented_derivation",
                        "G vector",
                        format!("{} ({}): G generator (party {}, index {}) is not SHAKE256(\"GeneratorsChain\" || 'G' || LE32({})) block {}", key, G::NAME, party, j, party, j),
                    ));
                    return out;
                }
                if hi[party * bits + j] != rh[j] {
                    out.push(Violation::new(
                        "generator_differs_from_documented_derivation",
                        "H vector",
                        format!("{} ({}): H generator (party {}, index {}) is not SHAKE256(\"GeneratorsChain\" || 'H' || LE32({})) block {}", key, G::NAME, party, j, party, j),
                    ));
                    return out;
                }
            }
        }
        // every way of reaching a position through the public accessors reports the same generator: jumps
        // (nth, skip, step_by, last) that land on, just before and just after party boundaries, from
        // fresh and from partly consumed iterators
        {
            let total = bits * cap;
            let mut positions: Vec<usize> = vec![0, total - 1];
            for party in 0..=cap.min(4) {
                for d in [-1i64, 0, 1] {
                    let p = (party * bits) as i64 + d;
                    if p >= 0 && (p as usize) < total {
                        positions.push(p as usize);
                    }
                }
            }
            for _ in 0..4 {
                positions.push(srng.usize_below(total));
            }
            for (name, vecs) in [("G vector", &gi), ("H vector", &hi)] {
                let fresh = || -> Box<dyn Iterator<Item = &G> + '_> {
                    if name == "G vector" {
                        Box::new(params.gi_base_iter())
                    } else {
                        Box::new(params.hi_base_iter())
                    }
                };
                for p in positions.iter().copied() {
                    let consumed = if p > 0 { srng.usize_below(p + 1) } else { 0 };
                    let mut it = fresh();
                    for _ in 0..consumed {
                        it.next();
                    }
                    let a = fresh().nth(p).cloned();
                    let b = fresh().skip(p).next().cloned();
                    let c = it.nth(p - consumed).cloned();
                    st.evals += 1;
                    let want = Some(vecs[p].clone());
                    if a != want || b != want || c != want {
                        out.push(Violation::new(
                            "accessor_reports_other_generator_for_position",
                            name,
                            format!("{} ({}): position {} reached by a jump (nth / skip / nth after {} steps) is not the generator reached by stepping", key, G::NAME, p, consumed),
                        ));
                        return out;
                    }
                }
                st.probe("positions_reached_by_jumps");
                // (every chain is bounded: a broken accessor must not be able to run away)
                let stepped: Vec<G> = fresh().step_by(bits).take(cap + 1).cloned().collect();
                let want: Vec<G> = (0..cap).map(|party| vecs[party * bits].clone()).collect();
                if stepped != want || fresh().take(total + 1).last() != vecs.last() || fresh().take(total + 1).count() != total || fresh().nth(total).is_some() {
                    out.push(Violation::new(
                        "accessor_reports_other_generator_for_position",
                        name,
                        format!("{} ({}): step_by(bits) / last / count / nth(len) disagree with stepping through the accessor", key, G::NAME),
                    ));
                    return out;
                }
            }
        }
        // Pedersen generators
        let g = params.g_bases();
        if g.len() != ext || params.g_bases_compressed().len() != ext {
            out.push(Violation::new("generator_count", key, format!("{} blinding generators for extension degree {}", g.len(), ext)));
            return out;
        }
        for k in 0..ext {
            if g[k] != ref_masking::<G>(k + 1) {
                out.push(Violation::new(
                    "generator_differs_from_documented_derivation",
                    "blinding",
                    format!("{} ({}): blinding generator {} is not hash-to-group(SHA3-512(\"RISTRETTO_MASKING_BASEPOINT_{}\"))", key, G::NAME, k, k + 1),
                ));
                return out;
            }
            if G::c_bytes(&params.g_bases_compressed()[k]) != G::enc(&g[k]) {
                out.push(Violation::new("compressed_form_is_not_the_encoding", "blinding", format!("{}: compressed blinding generator {} is not the encoding of the point", key, k)));
                return out;
            }
        }
        if !G::IS_FREE {
            // value generator is the Ristretto base point
            let bp = curve25519_dalek::constants::RISTRETTO_BASEPOINT_COMPRESSED.to_bytes();
            if G::enc(params.h_base()) != bp {
                out.push(Violation::new("generator_differs_from_documented_derivation", "H", format!("{}: the value generator is not the Ristretto base point", key)));
                return out;
            }
        }
        if G::c_bytes(&params.h_base_compressed()) != G::enc(params.h_base()) || G::c_bytes(&params.pc_gens().h_base_compressed()) != G::enc(params.pc_gens().h_base()) {
            out.push(Violation::new("compressed_form_is_not_the_encoding", "H", format!("{}: compressed value generator is not the encoding of the point", key)));
            return out;
        }
        // pairwise distinct, none the identity
        let mut encs: Vec<[u8; 32]> = gi.iter().chain(hi.iter()).chain(g.iter()).chain(std::iter::once(params.h_base())).map(|p| G::enc(p)).collect();
        let total = encs.len();
        if encs.iter().any(|e| *e == [0u8; 32]) {
            out.push(Violation::new("generator_is_identity", key, "a generator is the identity".to_string()));
            return out;
        }
        encs.sort_unstable();
        encs.dedup();
        if encs.len() != total {
            out.push(Violation::new(
                "generators_not_pairwise_distinct",
                key.clone(),
                format!("{} ({}): {} generators but only {} distinct points", key, G::NAME, total, encs.len()),
            ));
            return out;
        }
        // the precomputed table represents exactly the interleaved vector
        let scalars: Vec<Scalar> = (0..2 * bits * cap).map(|_| srng.scalar()).collect();
        let through_table = match crate::world::guarded(|| params.precomp().vartime_multiscalar_mul(scalars.iter())) {
            Ok(p) => p,
            Err(c) => {
                out.push(Violation::new(
                    "precomputed_table_differs_from_interleaved_generators",
                    key.clone(),
                    format!("{} ({}): evaluating {} scalars through precomp() panics — the table does not hold exactly the 2*bits*capacity vector generators: {:?}", key, G::NAME, 2 * bits * cap, c),
                ));
                return out;
            },
        };
        let mut naive = G::identity();
        for i in 0..bits * cap {
            naive = G::sum(&naive, &G::scale(&gi[i], &scalars[2 * i]));
            naive = G::sum(&naive, &G::scale(&hi[i], &scalars[2 * i + 1]));
        }
        if through_table != naive {
            out.push(Violation::new(
                "precomputed_table_differs_from_interleaved_generators",
                key.clone(),
                format!("{} ({}): a random linear combination through precomp() differs from the same combination of gi/hi in interleaved order", key, G::NAME),
            ));
            return out;
        }
        st.event(format!("construct#{} {} ok points={} digest={}", ci, key, total, digest(&[&encs.concat()])));
        if alive.iter().any(|(b, c): &(usize, usize)| *b * *c == bits * cap && (*b, *c) != (bits, cap)) {
            st.probe("same_table_size_different_shape_alive");
        }
        alive.push((bits, cap));
        keep.push(params);
    }
    out
}

/// `bpsim gens-digest <ext,ext,...>`: in a FRESH process, construct Pedersen generators in the
/// given order (first use of the lazily initialised statics) and print a digest per construction.
pub fn gens_digest_cli(order: &str) -> i32 {
    use curve25519_dalek::ristretto::RistrettoPoint;
    for e in order.split(',') {
        let ext: usize = e.parse().unwrap_or(1).clamp(1, 6);
        let pc = <RistrettoPoint as Group>::pedersen(ext);
        let mut bytes: Vec<u8> = Vec::new();
        for p in &pc.g_base_vec {
            bytes.extend_from_slice(p.compress().as_bytes());
        }
        for c in &pc.g_base_compressed_vec {
            bytes.extend_from_slice(c.as_bytes());
        }
        bytes.extend_from_slice(pc.h_base.compress().as_bytes());
        bytes.extend_from_slice(pc.h_base_compressed.as_bytes());
        println!("GENS {} {}", ext, hex::encode(&bytes));
    }
    0
}

/// reference bytes for `gens_digest_cli` (computed from the harness's derivation)
pub fn gens_digest_reference(ext: usize) -> String {
    use curve25519_dalek::ristretto::RistrettoPoint;
    let mut bytes: Vec<u8> = Vec::new();
    for _ in 0..2 {
        for k in 1..=ext {
            bytes.extend_from_slice(ref_masking::<RistrettoPoint>(k).compress().as_bytes());
        }
    }
    let bp = curve25519_dalek::constants::RISTRETTO_BASEPOINT_COMPRESSED;
    bytes.extend_from_slice(bp.as_bytes());
    bytes.extend_from_slice(bp.as_bytes());
    hex::encode(&bytes)
}

impl Check for C11 {
    type Scenario = Scenario;

    fn id(&self) -> &'static str {
        "C11"
    }

    fn level(&self) -> &'static str {
        "exploration"
    }

    fn rule(&self) -> String {
        "native part: each seeded run performs 2-6 fresh parameter constructions in a seeded order over (bits, capacity) <= (64, 32) and extension degree 1..6, on Ristretto and on the free module; after each construction all 2*bits*capacity + 1 + ext generators are compared with a reference derivation written in the harness (SHA3-512 labelled masking points; per-party SHAKE256 chains read in 64-byte blocks; Ristretto base point), checked pairwise distinct and non-identity, the compressed accessors compared with the encodings of the points, positions reached through the public accessors by jumps (nth, skip, step_by, last; on, before and after party boundaries) compared with stepping, and one random linear combination evaluated through precomp() compared with the naive interleaved sum; fresh-process part: the lazily initialised statics are first used in different orders in separate processes; schedule part: Miri interprets 2-4 real threads racing the first use of both statics under seeded schedules and three preemption rates, with its data-race detector on; one evaluation = one construction checked or one Miri execution; distinct = distinct event-log hashes + distinct schedule signatures".into()
    }

    fn assumptions(&self) -> Vec<String> {
        vec![
            "the reference derivation is the harness's reading of the doc comments and of RFC-0181".into(),
            "hash-to-group itself (dalek's from_uniform_bytes) is shared between library and reference".into(),
            "Miri's scheduler and data-race detector are trusted for the schedule part; it explores preemptions at basic-block granularity".into(),
        ]
    }

    fn components(&self) -> Value {
        let mut c = super::components_native();
        c["once_cell, std::sync::Arc, atomics"] = serde_json::json!("real, interpreted by Miri in the schedule phase");
        c["OS thread scheduler"] = serde_json::json!("Miri's seeded scheduler in the schedule phase; not involved in the native phase");
        c
    }

    fn runs(&self, tier: Tier) -> u64 {
        match tier {
            Tier::Quick => 96,
            Tier::Thorough => 1_200,
        }
    }

    fn generate(&self, rng: &mut SimRng, tier: Tier, index: u64) -> Scenario {
        let free = index % 2 == 0;
        let n = rng.range(2, 6) as usize;
        let mut order = Vec::new();
        for _ in 0..n {
            let bits = *rng.pick(&[1usize, 2, 4, 8, 16, 32, 64]);
            let mut cap = *rng.pick(&[1usize, 2, 4, 8, 16, 32]);
            if !free && tier == Tier::Quick && bits * cap > 256 {
                cap = (256 / bits).max(1);
            }
            order.push((bits, cap, rng.range(1, 6) as usize));
        }
        // a partner of the same table size but a different shape right after one of the constructions
        if rng.chance(1, 2) {
            let at = rng.usize_below(order.len());
            let (b, c, e) = order[at];
            let partner = if b >= 2 && c <= 16 { Some((b / 2, c * 2, e)) } else if c >= 2 && b <= 32 { Some((b * 2, c / 2, e)) } else { None };
            if let Some(p) = partner {
                order.insert(at + 1, p);
            }
        }
        // the full lattice point is always present in thorough runs and in every 8th quick run
        if tier == Tier::Thorough && index % 4 == 1 || index % 16 == 2 {
            let pos = rng.usize_below(order.len() + 1);
            order.insert(pos, (64, 32, 6));
        }
        Scenario { group: if free { "free".into() } else { "ristretto".into() }, order, scalar_seed: rng.next_u64() }
    }

    fn execute(&self, sc: &Scenario, st: &mut RunStats) -> Vec<Violation> {
        by_group!(sc.group, run(sc, st))
    }

    fn shrink(&self, sc: &Scenario) -> Vec<Scenario> {
        let mut v = Vec::new();
        if sc.order.len() > 1 {
            for i in 0..sc.order.len() {
                let mut s = sc.clone();
                s.order = vec![sc.order[i]];
                v.push(s);
            }
        }
        if sc.order.len() == 1 {
            let (b, c, e) = sc.order[0];
            if c > 1 {
                let mut s = sc.clone();
                s.order[0] = (b, c / 2, e);
                v.push(s);
            }
            if b > 1 {
                let mut s = sc.clone();
                s.order[0] = (b / 2, c, e);
                v.push(s);
            }
            if e > 1 {
                let mut s = sc.clone();
                s.order[0] = (b, c, e - 1);
                v.push(s);
            }
        }
        v
    }

    fn required_probes(&self, _tier: Tier) -> Vec<&'static str> {
        vec!["full_lattice_point_64_32", "construction_after_other_constructions", "same_table_size_different_shape_alive", "positions_reached_by_jumps"]
    }
}
