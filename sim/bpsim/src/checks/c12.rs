//! C12 — proof validity does not depend on generator capacity (configuration skew between the
//! prover node and verifier nodes: table capacity is a tuning knob each node sets for itself).

use serde::{Deserialize, Serialize};
use serde_json::Value;
use tari_bulletproofs_plus::{range_proof::RangeProof, range_statement::RangeStatement};

use crate::{
    by_group,
    faultrng::RngMode,
    group::Group,
    runner::{digest, Check, RunStats, Tier, Violation},
    simrng::SimRng,
    world::*,
};

#[derive(Clone, Debug, Serialize, Deserialize)]
pub struct Msg {
    pub m: usize,
    pub cap_prover: usize,
    pub wit: WitnessSpec,
    pub ctx: Context,
    pub rng_seed: u64,
    /// make the proof invalid (d1[0] + 1) so that rejections are compared as well
    pub corrupt: bool,
    /// capacities of the verifier nodes that check this message alone
    pub caps_verifiers: Vec<usize>,
}

#[derive(Clone, Debug, Serialize, Deserialize)]
pub struct Batch {
    /// (message index, capacity of the statement handed to the verifier)
    pub members: Vec<(usize, usize)>,
    pub action: usize,
}

#[derive(Clone, Debug, Serialize, Deserialize)]
pub struct Scenario {
    pub group: String,
    pub bits: usize,
    pub ext: usize,
    pub msgs: Vec<Msg>,
    pub batches: Vec<Batch>,
    /// pairs of capacities whose generator vectors are compared position by position
    pub gen_pairs: Vec<(usize, usize)>,
    /// caller-supplied, well-formed Pedersen generators with an unusual relationship (world::related_pedersen),
    /// shared by every prover and verifier of the run
    #[serde(default)]
    pub pc_variant: u8,
}

pub struct C12;

fn run<G: Group>(sc: &Scenario, st: &mut RunStats) -> Vec<Violation> {
    let mut out = Vec::new();
    st.group(G::NAME);
    // generator (party i, index j) identical whatever capacity was requested
    for (c1, c2) in &sc.gen_pairs {
        let p1 = std_params::<G>(sc.bits, *c1, sc.ext);
        let p2 = std_params::<G>(sc.bits, *c2, sc.ext);
        st.evals += 1;
        st.fault("capacity_skew_generators");
        let n = sc.bits * (*c1).min(*c2);
        let same_g = p1.gi_base_iter().zip(p2.gi_base_iter()).take(n).all(|(a, b)| a == b);
        let same_h = p1.hi_base_iter().zip(p2.hi_base_iter()).take(n).all(|(a, b)| a == b);
        let count_ok = p1.gi_base_iter().count() == sc.bits * c1 && p2.hi_base_iter().count() == sc.bits * c2;
        st.event(format!("generators cap {} vs {} -> {} {} {}", c1, c2, same_g, same_h, count_ok));
        if !(same_g && same_h && count_ok) {
            out.push(Violation::new(
                "generator_depends_on_capacity",
                "generators",
                format!("bits {}: vector generators of capacity {} and {} differ on their common prefix (G same: {}, H same: {}, counts ok: {})", sc.bits, c1, c2, same_g, same_h, count_ok),
            ));
            return out;
        }
    }
    let pc = related_pedersen::<G>(sc.ext, sc.pc_variant, sc.bits);
    if pc.is_some() {
        st.fault("caller_supplied_related_generators");
    }
    let build = |c: &Config, w: &WitnessSpec| -> Built<G> {
        match &pc {
            Some(pc) => build_with_params::<G>(custom_params::<G>(c.bits, c.cap, pc.clone()), c, w),
            None => crate::world::build::<G>(c, w),
        }
    };
    struct Prep<G: Group> {
        proof: RangeProof<G>,
        base: Vec<String>,
    }
    let mut preps: Vec<Prep<G>> = Vec::new();
    let stmt = |mi: usize, cap: usize| -> RangeStatement<G> {
        let m = &sc.msgs[mi];
        build(&Config { bits: sc.bits, m: m.m, cap, ext: sc.ext }, &m.wit).statement.clone()
    };
    for (mi, m) in sc.msgs.iter().enumerate() {
        let cfg = Config { bits: sc.bits, m: m.m, cap: m.cap_prover, ext: sc.ext };
        let built = build(&cfg, &m.wit);
        let mut proof = match prove_mode::<G>(&m.ctx, &built.statement, &built.witness, &RngMode::Healthy(m.rng_seed)).0 {
            Ok(Ok(p)) => p,
            other => {
                // the same capacity on a parameter object nothing has used yet: if that one proves, the refusal came
                // from what an object of capacity c_p >= m had served before (objects are shared within a run)
                crate::world::reset_params_cache();
                let fresh = build(&cfg, &m.wit);
                if matches!(prove_mode::<G>(&m.ctx, &fresh.statement, &fresh.witness, &RngMode::Healthy(m.rng_seed)).0, Ok(Ok(_))) {
                    st.probe("prover_failure_retried_on_fresh_parameters");
                    out.push(Violation::new(
                        "prover_fails_on_used_parameters_of_sufficient_capacity",
                        format!("cap_p={}", m.cap_prover),
                        format!(
                            "msg {} (m={}, capacity {}): parameters that served earlier messages of this run refuse to prove, a fresh object of the same capacity proves: {:?}",
                            mi,
                            m.m,
                            m.cap_prover,
                            other.map(|r| r.map(|_| ()))
                        ),
                    ));
                    return out;
                }
                // is it the spare capacity, or can this statement not be proved at all (not C12's business)?
                let eq_cfg = Config { cap: m.m, ..cfg };
                let eq = build(&eq_cfg, &m.wit);
                let at_equal = matches!(prove_mode::<G>(&m.ctx, &eq.statement, &eq.witness, &RngMode::Healthy(m.rng_seed)).0, Ok(Ok(_)));
                if m.cap_prover > m.m && at_equal {
                    out.push(Violation::new(
                        "prover_fails_with_spare_capacity",
                        format!("cap_p={}", m.cap_prover),
                        format!("msg {} (m={}): proving succeeds with capacity {} but fails with capacity {}: {:?}", mi, m.m, m.m, m.cap_prover, other.map(|r| r.map(|_| ()))),
                    ));
                } else {
                    out.push(Violation::new("harness:prover_failed", "setup", format!("msg {} cannot be proved even at equal capacity", mi)));
                }
                return out;
            },
        };
        if m.corrupt {
            if let Some(mut parts) = ProofParts::of::<G>(&proof) {
                let s = ProofParts::scalar(&parts.d1[0]).unwrap() + curve25519_dalek::scalar::Scalar::ONE;
                parts.d1[0] = s.to_bytes();
                if let Ok(p) = G::from_bytes(&parts.to_bytes()) {
                    proof = p;
                    st.fault("corrupted_member");
                }
            }
        }
        // equal-capacity baseline
        let base: Vec<String> = ACTIONS
            .iter()
            .map(|a| render_verify(&verify_one::<G>(&m.ctx, &built.statement, &proof, *a)))
            .collect();
        st.evals += 3;
        st.event(format!("msg{} m={} cap_p={} corrupt={} baseline={}", mi, m.m, m.cap_prover, m.corrupt, digest(&[base.join("|").as_bytes()])));
        for cv in &m.caps_verifiers {
            let s = stmt(mi, *cv);
            if *cv != m.cap_prover {
                st.fault("capacity_skew_single");
            }
            for (ai, a) in ACTIONS.iter().enumerate() {
                let r = render_verify(&verify_one::<G>(&m.ctx, &s, &proof, *a));
                st.evals += 1;
                st.event(format!("msg{} verifier cap {} {} -> {}", mi, cv, action_name(*a), digest(&[r.as_bytes()])));
                if r != base[ai] {
                    out.push(Violation::new(
                        "verdict_depends_on_capacity",
                        format!("single cp{}cv{}", (m.cap_prover > m.m) as u8, (*cv > m.m) as u8),
                        format!(
                            "msg {} (bits {}, m {}, created with capacity {}): verifier with capacity {} in mode {} returns {} but the equal-capacity baseline is {}",
                            mi, sc.bits, m.m, m.cap_prover, cv, action_name(*a), r, base[ai]
                        ),
                    ));
                    return out;
                }
            }
        }
        preps.push(Prep { proof, base });
    }
    for (bi, b) in sc.batches.iter().enumerate() {
        let a = action_from(b.action);
        let ai = b.action % 3;
        let sts: Vec<RangeStatement<G>> = b.members.iter().map(|(mi, c)| stmt(*mi, *c)).collect();
        let proofs: Vec<RangeProof<G>> = b.members.iter().map(|(mi, _)| preps[*mi].proof.clone()).collect();
        let ctxs: Vec<&Context> = b.members.iter().map(|(mi, _)| &sc.msgs[*mi].ctx).collect();
        let r = verify::<G>(&ctxs, &sts, &proofs, a);
        st.evals += 1;
        st.fault("capacity_skew_batch");
        if b.members.len() > 256 {
            st.fault("capacity_skew_batch_beyond_one_chunk");
            let ms: Vec<usize> = b.members.iter().map(|(mi, _)| sc.msgs[*mi].m).collect();
            if ms.iter().any(|m| *m != ms[0]) {
                st.probe("mixed_aggregation_factors_beyond_one_chunk");
            }
        }
        let all_ok = b.members.iter().all(|(mi, _)| preps[*mi].base[ai].starts_with("Ok"));
        st.event(format!("batch{} members={:?} {} -> {}", bi, b.members, action_name(a), digest(&[render_verify(&r).as_bytes()])));
        let key = "batch".to_string();
        match &r {
            Err(c) => {
                out.push(Violation::new("mixed_capacity_batch_panicked", key, format!("batch {} {:?}: {:?}", bi, b.members, c)));
                return out;
            },
            Ok(Ok(_)) if !all_ok => {
                out.push(Violation::new("verdict_depends_on_capacity", key, format!("batch {} {:?} accepted although a member is rejected at equal capacity", bi, b.members)));
                return out;
            },
            Ok(Err(e)) if all_ok => {
                out.push(Violation::new(
                    "verdict_depends_on_capacity",
                    key,
                    format!("batch {} of members (msg, capacity) {:?} in mode {} refused ({:?}) although every member is accepted at equal capacity", bi, b.members, action_name(a), e),
                ));
                return out;
            },
            Ok(Ok(masks)) => {
                // masks equal the equal-capacity baseline, position by position
                let got = render_verify(&r);
                let want: Vec<String> = b
                    .members
                    .iter()
                    .map(|(mi, _)| preps[*mi].base[ai].trim_start_matches("Ok[").trim_end_matches(']').to_string())
                    .collect();
                let want = format!("Ok[{}]", want.join(""));
                if got != want || masks.len() != b.members.len() {
                    out.push(Violation::new("masks_depend_on_capacity", key, format!("batch {} {:?}: masks differ from the equal-capacity baseline", bi, b.members)));
                    return out;
                }
            },
            _ => {},
        }
    }
    out
}

fn pow2_at_least(rng: &mut SimRng, m: usize) -> usize {
    let opts: Vec<usize> = [1usize, 2, 4, 8, 16, 32].iter().copied().filter(|c| *c >= m).collect();
    *rng.pick(&opts)
}

impl Check for C12 {
    type Scenario = Scenario;

    fn id(&self) -> &'static str {
        "C12"
    }

    fn level(&self) -> &'static str {
        "exploration"
    }

    fn rule(&self) -> String {
        "each seeded run has 2-6 prover nodes and 3+ verifier nodes that each draw their own generator capacity >= m (powers of two up to 32): every message (valid or deliberately corrupted) is verified alone by >= 3 nodes of different capacity in all three modes and inside 2-5 batches whose members' statements carry different capacities (one run in ten adds a batch of 257-514 honest members of mixed aggregation factors); generator vectors of 2-3 capacity pairs are compared position by position; one evaluation = one verify_batch call or one generator comparison; non-trivial = a prover/verifier capacity pair that actually differed; distinct = distinct event-log hashes One run in five uses caller-supplied, well-formed Pedersen generators with an unusual relationship, among them a blinding generator equal to a vector generator of an unused party.".into()
    }

    fn assumptions(&self) -> Vec<String> {
        vec!["the equal-capacity baseline is the library's own verdict (its correctness is C01/C02)".into(), "FreePoint faithful; one run in four on Ristretto".into()]
    }

    fn components(&self) -> Value {
        super::components_native()
    }

    fn runs(&self, tier: Tier) -> u64 {
        match tier {
            Tier::Quick => 600,
            Tier::Thorough => 40_000,
        }
    }

    fn generate(&self, rng: &mut SimRng, tier: Tier, index: u64) -> Scenario {
        let ristretto = index % 4 == 3;
        let bits = if ristretto { *rng.pick(&[2usize, 4, 8]) } else { *rng.pick(&[1usize, 2, 4, 8, 16, 64]) };
        let ext = if rng.chance(1, 2) { 1 } else { rng.range(1, 6) as usize };
        let max_cap = if ristretto || bits == 64 { 8 } else { 32 };
        let n = rng.range(2, if tier == Tier::Quick { 5 } else { 6 }) as usize;
        let mut msgs = Vec::new();
        for i in 0..n {
            let m = *rng.pick(&[1usize, 1, 2, 4]);
            let m = m.min(max_cap);
            let capp = pow2_at_least(rng, m).min(max_cap).max(m);
            let cfg = Config { bits, m, cap: capp, ext };
            let mut wit = WitnessSpec::generate(rng, &cfg, true);
            if m == 1 {
                wit.seed_nonce = Some(rng.next_u64());
            }
            let mut caps = vec![m];
            while caps.len() < 3 {
                let c = pow2_at_least(rng, m).min(max_cap).max(m);
                if !caps.contains(&c) || max_cap / m < 4 {
                    caps.push(c);
                }
            }
            msgs.push(Msg {
                m,
                cap_prover: capp,
                wit,
                ctx: Context::generate(rng),
                rng_seed: rng.next_u64(),
                corrupt: i > 0 && bits * m >= 2 && rng.chance(1, 5),
                caps_verifiers: caps,
            });
        }
        let mut batches = Vec::new();
        for _ in 0..rng.range(2, 5) {
            let k = rng.range(2, 6) as usize;
            let members = (0..k)
                .map(|_| {
                    let mi = rng.usize_below(n);
                    (mi, pow2_at_least(rng, msgs[mi].m).min(max_cap).max(msgs[mi].m))
                })
                .collect();
            batches.push(Batch { members, action: rng.usize_below(3) });
        }
        // some runs: one batch that spans more than one chunk of 256, honest members of mixed aggregation factors
        // and capacities; the member with the largest aggregation factor lands anywhere
        if !ristretto && bits <= 8 && rng.chance(1, 10) {
            let honest: Vec<usize> = (0..n).filter(|i| !msgs[*i].corrupt).collect();
            let k = match rng.below(4) {
                0 => 257,
                1 => rng.range(258, 300) as usize,
                2 => 512 + rng.usize_below(3),
                _ => 256 + rng.range(1, 8) as usize,
            };
            let k = if tier == Tier::Quick { k.min(300) } else { k };
            // mostly the smallest message, a few larger ones at seeded positions
            let smallest = *honest.iter().min_by_key(|i| msgs[**i].m).unwrap();
            let mut members: Vec<(usize, usize)> = (0..k)
                .map(|_| (smallest, pow2_at_least(rng, msgs[smallest].m).min(max_cap).max(msgs[smallest].m)))
                .collect();
            for _ in 0..rng.range(1, 3) {
                let mi = *rng.pick(&honest);
                let pos = match rng.below(4) {
                    0 => k - 1,
                    1 => 256,
                    2 => rng.usize_below(8),
                    _ => rng.usize_below(k),
                };
                members[pos] = (mi, pow2_at_least(rng, msgs[mi].m).min(max_cap).max(msgs[mi].m));
            }
            batches.push(Batch { members, action: rng.usize_below(3) });
        }
        let gen_pairs = (0..rng.range(2, 3))
            .map(|_| (pow2_at_least(rng, 1).min(max_cap), pow2_at_least(rng, 1).min(max_cap)))
            .collect();
        let pc_variant = if rng.chance(1, 5) { 1 + rng.below(7) as u8 } else { 0 };
        Scenario { group: if ristretto { "ristretto".into() } else { "free".into() }, bits, ext, msgs, batches, gen_pairs, pc_variant }
    }

    fn execute(&self, sc: &Scenario, st: &mut RunStats) -> Vec<Violation> {
        by_group!(sc.group, run(sc, st))
    }

    fn shrink(&self, sc: &Scenario) -> Vec<Scenario> {
        let mut v = Vec::new();
        if !sc.batches.is_empty() {
            let mut s = sc.clone();
            s.batches.clear();
            v.push(s);
            for i in 0..sc.batches.len() {
                let mut s = sc.clone();
                s.batches = vec![sc.batches[i].clone()];
                v.push(s);
            }
        }
        if !sc.gen_pairs.is_empty() {
            let mut s = sc.clone();
            s.gen_pairs.clear();
            v.push(s);
        }
        for b in 0..sc.batches.len() {
            if sc.batches[b].members.len() > 1 {
                for i in 0..sc.batches[b].members.len() {
                    let mut s = sc.clone();
                    s.batches[b].members.remove(i);
                    v.push(s);
                }
            }
        }
        for i in 0..sc.msgs.len() {
            if sc.msgs[i].caps_verifiers.len() > 1 {
                for c in 0..sc.msgs[i].caps_verifiers.len() {
                    let mut s = sc.clone();
                    s.msgs[i].caps_verifiers = vec![sc.msgs[i].caps_verifiers[c]];
                    v.push(s);
                }
            }
        }
        if sc.group != "free" {
            let mut s = sc.clone();
            s.group = "free".into();
            v.push(s);
        }
        v
    }

    fn required_probes(&self, _tier: Tier) -> Vec<&'static str> {
        vec!["capacity_skew_single", "capacity_skew_batch", "capacity_skew_generators", "corrupted_member", "capacity_skew_batch_beyond_one_chunk", "mixed_aggregation_factors_beyond_one_chunk", "caller_supplied_related_generators"]
    }
}
