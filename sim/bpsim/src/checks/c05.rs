//! C05 — any single alteration of an accepted (statement, proof, transcript) triple is rejected
//! with an error value: never accepted, never a panic. Fault enumeration over every component
//! position of messages produced by simulated honest provers.

use serde::{Deserialize, Serialize};
use serde_json::Value;
use tari_bulletproofs_plus::range_proof::VerifyAction;

use crate::{
    by_group,
    channel::*,
    faultrng::RngMode,
    group::Group,
    runner::{Check, RunStats, Tier, Violation},
    simrng::SimRng,
    world::*,
};

#[derive(Clone, Debug, Serialize, Deserialize)]
pub struct Scenario {
    pub group: String,
    pub cfg: Config,
    pub wit: WitnessSpec,
    pub ctx: Context,
    pub rng_seed: u64,
    /// seed of the stream that resolves random replacement values
    pub fault_seed: u64,
    /// None = every enumerated fault; Some(i) = only the i-th (replay / minimisation)
    pub only: Option<usize>,
    /// aggregated statements only: the verifier's statement carries a seed in its public field
    #[serde(default)]
    pub owner_seed_on_aggregate: bool,
}

pub struct C05;

fn run<G: Group>(sc: &Scenario, st: &mut RunStats) -> Vec<Violation> {
    let mut out = Vec::new();
    st.group(G::NAME);
    let built = build::<G>(&sc.cfg, &sc.wit);
    let proof = match prove_mode::<G>(&sc.ctx, &built.statement, &built.witness, &RngMode::Healthy(sc.rng_seed)).0 {
        Ok(Ok(p)) => p,
        _ => {
            out.push(Violation::new("harness:setup_honest_proof_failed", "setup", format!("cfg={:?}", sc.cfg)));
            return out;
        },
    };
    let mut msg = Msg::<G>::honest(&sc.cfg, &sc.wit, &sc.ctx, &built, &proof);
    if sc.owner_seed_on_aggregate && sc.cfg.m >= 2 {
        msg.force_seed = Some(scalar_from_seed("c05forced", sc.fault_seed, 0));
        st.probe("aggregated_statement_carrying_a_seed");
    }
    // the unaltered triple must be accepted, otherwise nothing below means anything
    for a in [VerifyAction::VerifyOnly, VerifyAction::RecoverAndVerify] {
        match msg.deliver(a) {
            Ok(Ok(())) => {},
            other => {
                out.push(Violation::new(
                    "harness:setup_honest_message_rejected",
                    "setup",
                    format!("cfg={:?} mode={} result={:?}", sc.cfg, action_name(a), other),
                ));
                return out;
            },
        }
    }
    st.event(format!("honest message cfg={:?} seed={} accepted", sc.cfg, sc.wit.seed_nonce.is_some()));
    // an honest companion (same bits / ext, a single commitment) for deliveries in a batch context:
    // the altered triple is then neither alone nor, when m >= 2, the first or the smallest member
    let ccfg = Config { bits: sc.cfg.bits, m: 1, cap: 1, ext: sc.cfg.ext };
    let cwit = WitnessSpec { values: vec![0], promises: vec![None], blind_seed: sc.fault_seed ^ 0x5EED, seed_nonce: None, zero_blind: vec![], same_as_prev: vec![], same_as_first: vec![], special_blind: None };
    let cctx = Context { label: 7, extra: None };
    let cbuilt = build::<G>(&ccfg, &cwit);
    let companion = match prove_mode::<G>(&cctx, &cbuilt.statement, &cbuilt.witness, &RngMode::Healthy(sc.rng_seed ^ 1)).0 {
        Ok(Ok(p)) => Some((cbuilt.public_statement.clone(), p)),
        _ => None,
    };
    let frng = SimRng::new(sc.fault_seed);
    let faults = enumerate_faults(&msg, &mut frng.split("enumerate"));
    st.probe(&format!("ext_{}", sc.cfg.ext));
    if sc.cfg.m >= 8 {
        st.probe("m_ge_8");
    }
    if sc.cfg.m >= 2 {
        st.probe("aggregated");
    }
    // three seeded fault indices get the large-batch delivery as well
    let big_sample: Vec<usize> = if sc.cfg.full_length() <= 64 && !faults.is_empty() {
        let mut r = frng.split("big");
        (0..3).map(|_| r.usize_below(faults.len())).collect()
    } else {
        vec![]
    };
    for (i, f) in faults.iter().enumerate() {
        if let Some(only) = sc.only {
            if only != i {
                continue;
            }
        }
        let mut r = frng.split_idx("fault", i as u64);
        let Some(bad) = apply_fault(&msg, f, &mut r) else {
            st.probe("fault_not_an_alteration_skipped");
            continue;
        };
        st.fault(f.kind());
        // batch context: [companion, altered] and [altered, companion]
        // (the compressed forms of a non-first member's generators are redundant copies the batch
        // verifier never reads — members are compared by their generator points — so an alteration of
        // the encoding alone is only meaningful for a triple verified on its own)
        let encoding_only = matches!(f, Fault::GeneratorH(GenPart::CompressedOnly) | Fault::GeneratorG { part: GenPart::CompressedOnly, .. });
        if encoding_only {
            st.probe("encoding_only_fault_not_delivered_in_batch_context");
        } else if let (Some((cst, cpr)), Ok(Delivered::Ready(bst, bpr))) = (&companion, guarded(|| bad.open())) {
            // arrangements: [companion, altered], [altered, companion] and, for odd batch sizes,
            // [companion, companion, altered], [altered, companion, companion]
            for arrangement in 0..4usize {
                let altered_first = arrangement % 2 == 1;
                let n_comp = if arrangement < 2 { 1 } else { 2 };
                let mut sts = vec![cst.clone(); n_comp];
                let mut prs = vec![cpr.clone(); n_comp];
                let mut ctxs: Vec<&Context> = vec![&cctx; n_comp];
                if altered_first {
                    sts.insert(0, bst.clone());
                    prs.insert(0, bpr.clone());
                    ctxs.insert(0, &bad.ctx);
                } else {
                    sts.push(bst.clone());
                    prs.push(bpr.clone());
                    ctxs.push(&bad.ctx);
                }
                st.evals += 1;
                let r = verify::<G>(&ctxs, &sts, &prs, VerifyAction::VerifyOnly);
                st.probe("delivered_in_batch_context");
                st.event(format!("fault#{} {:?} in batch (altered first: {}) -> {}", i, f, altered_first, if is_ok(&r) { "Ok" } else if is_err(&r) { "Err" } else { "PANIC" }));
                if !is_err(&r) {
                    out.push(Violation::new(
                        if is_ok(&r) { "altered_triple_accepted" } else { "altered_triple_panicked" },
                        format!("{:?} in batch", f),
                        format!(
                            "fault #{} {:?} applied to an accepted triple (cfg={:?}, group {}), delivered in a batch {} an honest single-commitment companion: {}",
                            i,
                            f,
                            sc.cfg,
                            G::NAME,
                            if altered_first { "before" } else { "after" },
                            render_verify(&r)
                        ),
                    ));
                    return out;
                }
            }
        }
        // duplicate delivery: the accepted original immediately followed (or preceded) by its altered copy
        if !encoding_only {
            if let (Ok(Delivered::Ready(ost, opr)), Ok(Delivered::Ready(bst, bpr))) = (guarded(|| msg.open()), guarded(|| bad.open())) {
                for altered_first in [false, true] {
                    let (sts, prs, ctxs): (Vec<_>, Vec<_>, Vec<&Context>) = if altered_first {
                        (vec![bst.clone(), ost.clone()], vec![bpr.clone(), opr.clone()], vec![&bad.ctx, &msg.ctx])
                    } else {
                        (vec![ost.clone(), bst.clone()], vec![opr.clone(), bpr.clone()], vec![&msg.ctx, &bad.ctx])
                    };
                    for a in [VerifyAction::VerifyOnly, VerifyAction::RecoverAndVerify] {
                        st.evals += 1;
                        let r = verify::<G>(&ctxs, &sts, &prs, a);
                        st.probe("delivered_next_to_its_original");
                        if !is_err(&r) {
                            out.push(Violation::new(
                                if is_ok(&r) { "altered_triple_accepted" } else { "altered_triple_panicked" },
                                format!("{:?} next to original", f),
                                format!(
                                    "fault #{} {:?} applied to an accepted triple (cfg={:?}, group {}), delivered in a batch {} the unaltered original, mode {}: {}",
                                    i,
                                    f,
                                    sc.cfg,
                                    G::NAME,
                                    if altered_first { "before" } else { "after" },
                                    action_name(a),
                                    render_verify(&r)
                                ),
                            ));
                            return out;
                        }
                    }
                }
            }
        }
        // beyond the verifier's chunk limit: the altered triple in the FIRST chunk of a batch of 257 whose
        // other members (hence the whole last chunk) are valid — for a seeded sample of faults only
        if !encoding_only && big_sample.contains(&i) {
            if let (Some((cst, cpr)), Ok(Delivered::Ready(bst, bpr))) = (&companion, guarded(|| bad.open())) {
                for pos in [0usize, 255] {
                    let mut sts = vec![cst.clone(); 257];
                    let mut prs = vec![cpr.clone(); 257];
                    let mut ctxs: Vec<&Context> = vec![&cctx; 257];
                    sts[pos] = bst.clone();
                    prs[pos] = bpr.clone();
                    ctxs[pos] = &bad.ctx;
                    st.evals += 1;
                    let r = verify::<G>(&ctxs, &sts, &prs, VerifyAction::VerifyOnly);
                    st.probe("delivered_in_first_chunk_of_a_large_batch");
                    if !is_err(&r) {
                        out.push(Violation::new(
                            if is_ok(&r) { "altered_triple_accepted" } else { "altered_triple_panicked" },
                            format!("{:?} in large batch", f),
                            format!(
                                "fault #{} {:?} applied to an accepted triple (cfg={:?}, group {}), delivered at position {} of a batch of 257 whose other members are valid: {}",
                                i,
                                f,
                                sc.cfg,
                                G::NAME,
                                pos,
                                if is_ok(&r) { "Ok".to_string() } else { render_verify(&r) }
                            ),
                        ));
                        return out;
                    }
                }
            }
        }
        for a in [VerifyAction::VerifyOnly, VerifyAction::RecoverAndVerify] {
            st.evals += 1;
            let res = bad.deliver(a);
            st.event(format!("fault#{} {:?} {} -> {:?}", i, f, action_name(a), res.as_ref().map(|r| r.as_ref().map(|_| "Ok").map_err(|e| e.clone()))));
            match res {
                Ok(Err(_)) => {},
                Ok(Ok(())) => {
                    out.push(Violation::new(
                        "altered_triple_accepted",
                        format!("{:?}", f),
                        format!(
                            "fault #{} {:?} applied to an accepted triple (cfg={:?}, group {}) was ACCEPTED in mode {}",
                            i,
                            f,
                            sc.cfg,
                            G::NAME,
                            action_name(a)
                        ),
                    ));
                    return out;
                },
                Err(c) => {
                    out.push(Violation::new(
                        "altered_triple_panicked",
                        format!("{:?}", f),
                        format!(
                            "fault #{} {:?} applied to an accepted triple (cfg={:?}, group {}) made the verifier panic in mode {}: {:?}",
                            i,
                            f,
                            sc.cfg,
                            G::NAME,
                            action_name(a),
                            c
                        ),
                    ));
                    return out;
                },
            }
        }
    }
    out
}

impl Check for C05 {
    type Scenario = Scenario;

    fn id(&self) -> &'static str {
        "C05"
    }

    fn level(&self) -> &'static str {
        "fault_enumeration"
    }

    fn rule(&self) -> String {
        "for each seeded accepted message (bytes path, bits*m >= 2) EVERY single-component fault is applied: each of the 5+ext+2*rounds proof elements x {scalar: +1, negate, zero, random, non-canonical | point: H, sibling, random, identity, undecodable | two bit flips}, round count +-1, extension tag +-1 with/without length repair, truncation/extension by 1/31/32/33 bytes, each commitment x 4 replacements, each commitment pair swap, each promise x 5, bit length x2 and /2, H and each G_k x {point only, encoding only, both}, context label and context data; one evaluation = one delivery of one altered triple in one mode (VerifyOnly, RecoverAndVerify), alone or as first or last member of a batch of two or three; replacements equal to the original and None->Some(0) are skipped (not alterations); distinct = distinct event-log hashes of messages on which at least one fault was applied. Exhaustive over fault positions per message, sampled over messages.".into()
    }

    fn assumptions(&self) -> Vec<String> {
        vec![
            "rejection is required with overwhelming probability only: a random replacement that happens to satisfy the verification equation has probability about 2^-252".into(),
            "a change of generator capacity alone is not an alteration (that is C12)".into(),
            "zero-round proofs (bits*m = 1) are excluded from the byte path because the decoder refuses them (C15)".into(),
        ]
    }

    fn components(&self) -> Value {
        super::components_native()
    }

    fn runs(&self, tier: Tier) -> u64 {
        match tier {
            Tier::Quick => 240,
            Tier::Thorough => 12_000,
        }
    }

    fn generate(&self, rng: &mut SimRng, tier: Tier, index: u64) -> Scenario {
        let ristretto = index % 4 == 3;
        let (max_full, max_m) = match (ristretto, tier) {
            (true, Tier::Quick) => (64, 4),
            (true, Tier::Thorough) => (512, 8),
            (false, Tier::Quick) => (256, 8),
            (false, Tier::Thorough) => (1024, 16),
        };
        let mut cfg;
        loop {
            cfg = Config::generate(rng, max_full, max_m);
            if cfg.full_length() >= 2 {
                break;
            }
        }
        // make sure high extension degrees and m = 8 are always present
        match index % 16 {
            1 => cfg.ext = 6,
            2 => cfg.ext = 4,
            5 if !ristretto => {
                cfg.m = 8;
                cfg.cap = 8;
                cfg.bits = cfg.bits.min(max_full / 8).max(1);
            },
            _ => {},
        }
        let wit = WitnessSpec::generate(rng, &cfg, true);
        Scenario {
            group: if ristretto { "ristretto".into() } else { "free".into() },
            cfg,
            wit,
            ctx: Context::generate(rng),
            rng_seed: rng.next_u64(),
            fault_seed: rng.next_u64(),
            only: None,
            owner_seed_on_aggregate: rng.chance(1, 2),
        }
    }

    fn execute(&self, sc: &Scenario, st: &mut RunStats) -> Vec<Violation> {
        by_group!(sc.group, run(sc, st))
    }

    fn shrink(&self, sc: &Scenario) -> Vec<Scenario> {
        let mut v = Vec::new();
        if sc.only.is_none() {
            // find the failing fault index by bisection-free scan is done by the runner calling
            // execute on each candidate; offer every index (cheap: one fault each)
            for i in 0..700 {
                let mut s = sc.clone();
                s.only = Some(i);
                v.push(s);
            }
        }
        if sc.group != "free" {
            let mut s = sc.clone();
            s.group = "free".into();
            v.push(s);
        }
        v
    }

    fn required_probes(&self, _tier: Tier) -> Vec<&'static str> {
        vec![
            "flip_bit", "replace_scalar", "replace_point", "drop_round", "add_round", "retag_extension", "truncate",
            "extend", "swap_commitments", "replace_commitment", "promise", "bits", "generator_h", "generator_g",
            "context_label", "context_extra", "ext_6", "ext_4", "m_ge_8", "aggregated", "add_many_rounds",
            "delivered_in_batch_context", "delivered_next_to_its_original", "delivered_in_first_chunk_of_a_large_batch", "aggregated_statement_carrying_a_seed",
        ]
    }
}
