pub mod c01;
pub mod c02;
pub mod c03;
pub mod c04;
pub mod c05;
pub mod c08;
pub mod c11;
pub mod c12;
pub mod c13;
pub mod c14;
pub mod c16;
pub mod c18;
pub mod c20;

use serde_json::{json, Value};

#[macro_export]
macro_rules! by_group {
    ($g:expr, $f:ident ( $($args:expr),* )) => {
        if $g == "free" {
            $f::<$crate::free::FreePoint>($($args),*)
        } else {
            $f::<curve25519_dalek::ristretto::RistrettoPoint>($($args),*)
        }
    };
}

/// Which components ran real code and which ran a stub (same for all native checks).
pub fn components_native() -> Value {
    json!({
        "tari_bulletproofs_plus (prover, verifier, transcripts, generators, codec, constructors)": "real, unmodified, compiled from /repo working tree",
        "merlin": "real code + passive tap (off unless a check turns it on)",
        "curve25519-dalek Ristretto": "real in runs with group=ristretto; replaced by the simulator-owned free module (FreePoint) in runs with group=free (counts per group are in coverage.groups)",
        "external RNG": "simulator (FaultRng): it is an argument of the API",
        "global allocator": "System behind the counting/scanning wrapper",
        "OS thread scheduler": "not involved (each run executes on one thread; runs share no mutable state)",
        "clock, network, disk": "absent from the library; not simulated"
    })
}
