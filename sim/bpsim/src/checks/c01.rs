//! C01 — completeness under whatever RNG the prover is handed.

use serde::{Deserialize, Serialize};
use serde_json::Value;

use crate::{
    by_group,
    faultrng::RngMode,
    group::Group,
    runner::{Check, RunStats, Tier, Violation},
    simrng::SimRng,
    world::*,
};

#[derive(Clone, Debug, Serialize, Deserialize)]
pub struct Member {
    pub cfg: Config,
    pub wit: WitnessSpec,
    pub ctx: Context,
}

#[derive(Clone, Debug, Serialize, Deserialize)]
pub struct Scenario {
    pub group: String,
    pub cfg: Config,
    pub wit: WitnessSpec,
    pub ctx: Context,
    pub rng_mode: RngMode,
    /// other valid members (same bits / ext) verified together with the subject
    pub batch_others: Vec<Member>,
    pub batch_position: usize,
    /// the companions are repeated cyclically until the batch has this many members (sizes around
    /// the verifier's chunk limit of 256 and its multiples)
    #[serde(default)]
    pub batch_size: Option<usize>,
    /// caller-supplied, well-formed Pedersen generators with an unusual relationship (world::related_pedersen),
    /// shared by every member of the batch
    #[serde(default)]
    pub pc_variant: u8,
    /// the prover's transcript object first goes through a proving attempt that fails (a witness
    /// that does not open the commitment) and is then reused for the honest attempt
    #[serde(default)]
    pub failed_attempt_first: bool,
}

pub struct C01;

pub fn gen_rng_mode(rng: &mut SimRng, allow_healthy: bool) -> RngMode {
    let k = if allow_healthy { rng.below(12) } else { 2 + rng.below(10) };
    match k {
        0 | 1 => RngMode::Healthy(rng.next_u64()),
        2 => RngMode::AllZero,
        3 => RngMode::AllOnes,
        4 => RngMode::ConstantByte(rng.next_u64() as u8),
        5 => RngMode::ShortPeriod(*rng.pick(&[1usize, 2, 3, 7, 31, 32, 33]), rng.next_u64()),
        6 => RngMode::Counter,
        7 => RngMode::StuckAfter(*rng.pick(&[0usize, 1, 31, 32, 33, 64, 96, 100, 160]), rng.next_u64()),
        8 => {
            let n = *rng.pick(&[1usize, 16, 32, 48, 64, 200]);
            let mut v = vec![0u8; n];
            rng.fill(&mut v);
            RngMode::Replay(hex::encode(v))
        },
        9 => RngMode::ConstantByte(0xED), // 0xEDED.. is >= the group order in every 32-byte window
        10 => RngMode::ZeroBlockAt(rng.range(1, 9) as usize, rng.next_u64()),
        _ => RngMode::RepeatBlockAt(rng.range(2, 9) as usize, rng.next_u64()),
    }
}

fn run<G: Group>(sc: &Scenario, st: &mut RunStats) -> Vec<Violation> {
    let mut out = Vec::new();
    st.group(G::NAME);
    let cfg = &sc.cfg;
    let key = format!("{:?}/{}", cfg, sc.rng_mode.kind());
    let pc = related_pedersen::<G>(cfg.ext, sc.pc_variant, cfg.bits);
    let build_v = |c: &Config, w: &WitnessSpec| -> Built<G> {
        match &pc {
            Some(pc) => build_with_params::<G>(custom_params::<G>(c.bits, c.cap, pc.clone()), c, w),
            None => build::<G>(c, w),
        }
    };
    if pc.is_some() {
        st.fault("caller_supplied_related_generators");
    }
    let built = build_v(cfg, &sc.wit);
    st.event(format!("build cfg={:?} seed={}", cfg, sc.wit.seed_nonce.is_some()));
    if cfg.cap > cfg.m {
        st.probe("capacity_gt_m");
    }
    if cfg.m >= 8 {
        st.probe("m_ge_8");
    }
    if cfg.full_length() == 1 {
        st.probe("zero_round_proof");
    }
    if cfg.bits == 64 {
        st.probe("bits_64");
    }
    if sc.wit.seed_nonce.is_some() {
        st.probe("seed_present");
    }
    for (v, p) in sc.wit.values.iter().zip(sc.wit.promises.iter()) {
        if Some(*v) == *p {
            st.probe("promise_eq_value");
        }
        if cfg.bits < 64 && *v == (1u64 << cfg.bits) - 1 || cfg.bits == 64 && *v == u64::MAX {
            st.probe("value_max");
        }
        if *v == 0 {
            st.probe("value_zero");
        }
    }
    st.probe(&format!("ext_{}", cfg.ext));
    st.probe(&format!("bits_{}", cfg.bits));
    let (res, frng) = if sc.failed_attempt_first {
        let mut wrong = sc.wit.clone();
        wrong.blind_seed = wrong.blind_seed.wrapping_add(1);
        wrong.zero_blind.clear();
        wrong.special_blind = None;
        wrong.same_as_prev.clear();
        wrong.same_as_first.clear();
        let bad = build_v(cfg, &wrong);
        let mut t = sc.ctx.transcript();
        let mut r0 = crate::faultrng::FaultRng::new(RngMode::Healthy(3));
        let first = guarded(|| G::prove(&mut t, &built.statement, &bad.witness, &mut r0));
        if matches!(first, Ok(Err(_))) {
            st.fault("failed_attempt_on_the_same_transcript_first");
        } else {
            // the "wrong" witness happened to be acceptable: that attempt consumed the transcript
            // legitimately, so start over on an untouched one
            t = sc.ctx.transcript();
        }
        let mut fr = crate::faultrng::FaultRng::new(sc.rng_mode.clone());
        let r = guarded(|| G::prove(&mut t, &built.statement, &built.witness, &mut fr));
        (r, fr)
    } else {
        prove_mode::<G>(&sc.ctx, &built.statement, &built.witness, &sc.rng_mode)
    };
    if sc.rng_mode.is_faulty() {
        st.fault(&format!("rng_{}", sc.rng_mode.kind()));
    }
    st.steps += frng.calls as u64;
    st.event(format!("prove rng={} calls={} bytes={}", sc.rng_mode.kind(), frng.calls, frng.bytes));
    if frng.bytes * 4 >= frng.budget * 3 {
        st.probe("rng_budget_three_quarters");
    }
    st.evals += 1;
    let proof = match res {
        Ok(Ok(p)) => p,
        Ok(Err(e)) => {
            out.push(Violation::new(
                "prover_refused_valid_witness",
                key,
                format!("prove_with_rng returned Err({:?}) for a valid witness; cfg={:?} rng={:?}", e, cfg, sc.rng_mode),
            ));
            return out;
        },
        Err(Caught::RngBudget(n)) => {
            out.push(Violation::new(
                "prover_bounded_liveness",
                key,
                format!(
                    "prover consumed {} bytes of external randomness (budget {}) without finishing; cfg={:?} rng={:?}",
                    n, frng.budget, cfg, sc.rng_mode
                ),
            ));
            return out;
        },
        Err(c) => {
            out.push(Violation::new(
                "prover_panicked",
                key,
                format!("prover panicked: {:?}; cfg={:?} rng={:?}", c, cfg, sc.rng_mode),
            ));
            return out;
        },
    };
    let expected_calls = 3 + cfg.rounds();
    if frng.calls != expected_calls {
        st.probe("rng_calls_differ_from_3_plus_rounds");
    }
    // singleton, every mode, private and public statement
    for (which, stmt) in [("private", &built.statement), ("public", &built.public_statement)] {
        for a in ACTIONS {
            st.evals += 1;
            let r = verify_one::<G>(&sc.ctx, stmt, &proof, a);
            st.event(format!("verify {} {} -> {}", which, action_name(a), crate::runner::digest(&[render_verify(&r).as_bytes()])));
            let ok = matches!(&r, Ok(Ok(m)) if m.len() == 1);
            if !ok {
                out.push(Violation::new(
                    "honest_proof_rejected",
                    key.clone(),
                    format!(
                        "honest proof not accepted: statement={} mode={} result={} cfg={:?} rng={:?}",
                        which,
                        action_name(a),
                        render_verify(&r),
                        cfg,
                        sc.rng_mode
                    ),
                ));
                return out;
            }
        }
    }
    // the proof survives its own codec: decode(encode(p)) is accepted exactly like p
    if cfg.full_length() >= 2 {
        st.evals += 1;
        let bytes = G::to_bytes(&proof);
        match G::from_bytes(&bytes) {
            Ok(q) => {
                let r = verify_one::<G>(&sc.ctx, &built.statement, &q, tari_bulletproofs_plus::range_proof::VerifyAction::RecoverAndVerify);
                let r0 = verify_one::<G>(&sc.ctx, &built.statement, &proof, tari_bulletproofs_plus::range_proof::VerifyAction::RecoverAndVerify);
                st.probe("byte_round_trip_verified");
                // the serde form (through bincode) carries the same bytes and decodes to the same proof;
                // the announced extension degree is the statement's
                let via_serde = G::serde_out(&proof).and_then(|b| G::serde_in(&b));
                let ext_ok = matches!(G::ext_from_bytes(&bytes), Ok(e) if e == cfg.ext) && G::ext_of(&proof) == cfg.ext;
                match via_serde {
                    Ok(q2) if G::to_bytes(&q2) == bytes && ext_ok => st.probe("serde_round_trip_verified"),
                    other => {
                        out.push(Violation::new(
                            "honest_proof_rejected_after_byte_round_trip",
                            key.clone(),
                            format!("cfg={:?}: serde/bincode round trip of the prover's output: {}; announced extension degree correct: {}", cfg, other.map(|_| "decodes to different bytes".to_string()).unwrap_or_else(|e| e), ext_ok),
                        ));
                        return out;
                    },
                }
                if render_verify(&r) != render_verify(&r0) || G::to_bytes(&q) != bytes {
                    out.push(Violation::new(
                        "honest_proof_rejected_after_byte_round_trip",
                        key.clone(),
                        format!("cfg={:?}: from_bytes(to_bytes(proof)) verifies as {} but the proof itself as {}", cfg, render_verify(&r), render_verify(&r0)),
                    ));
                    return out;
                }
            },
            Err(e) => {
                out.push(Violation::new(
                    "honest_proof_rejected_after_byte_round_trip",
                    key.clone(),
                    format!("cfg={:?}: the decoder refuses the prover's own output: {:?}", cfg, e),
                ));
                return out;
            },
        }
    }
    // inside a batch of unrelated valid members
    if !sc.batch_others.is_empty() {
        let mut sts = Vec::new();
        let mut proofs = Vec::new();
        let mut ctxs: Vec<&Context> = Vec::new();
        for (i, mbr) in sc.batch_others.iter().enumerate() {
            let b = build_v(&mbr.cfg, &mbr.wit);
            let (r, _) = prove_mode::<G>(&mbr.ctx, &b.statement, &b.witness, &RngMode::Healthy(0xC01 + i as u64));
            match r {
                Ok(Ok(p)) => {
                    sts.push(b.statement.clone());
                    proofs.push(p);
                    ctxs.push(&mbr.ctx);
                },
                other => {
                    out.push(Violation::new(
                        "prover_refused_valid_witness",
                        key.clone(),
                        format!("batch companion {} could not be proved: {:?}", i, other.map(|x| x.map(|_| ()))),
                    ));
                    return out;
                },
            }
        }
        if let Some(k) = sc.batch_size {
            let n0 = sts.len();
            let mut i = 0;
            while sts.len() + 1 < k {
                sts.push(sts[i % n0].clone());
                proofs.push(proofs[i % n0].clone());
                ctxs.push(ctxs[i % n0]);
                i += 1;
            }
            st.fault("batch_beyond_one_chunk");
        }
        let pos = sc.batch_position.min(sts.len());
        sts.insert(pos, built.statement.clone());
        proofs.insert(pos, proof.clone());
        ctxs.insert(pos, &sc.ctx);
        st.fault("batch_context");
        for a in ACTIONS {
            st.evals += 1;
            let r = verify::<G>(&ctxs, &sts, &proofs, a);
            st.event(format!("verify batch k={} pos={} {} -> {}", sts.len(), pos, action_name(a), crate::runner::digest(&[render_verify(&r).as_bytes()])));
            let ok = matches!(&r, Ok(Ok(m)) if m.len() == sts.len());
            if !ok {
                out.push(Violation::new(
                    "honest_batch_rejected",
                    key.clone(),
                    format!(
                        "batch of {} honest proofs not accepted (subject at {}): mode={} result={}",
                        sts.len(),
                        pos,
                        action_name(a),
                        render_verify(&r)
                    ),
                ));
                return out;
            }
        }
    }
    out
}

impl Check for C01 {
    type Scenario = Scenario;

    fn id(&self) -> &'static str {
        "C01"
    }

    fn level(&self) -> &'static str {
        "exploration"
    }

    fn rule(&self) -> String {
        "each seeded run resolves (group, configuration, witness, context, RNG fault mode, batch companions) and drives prove_with_rng -> verify_batch in all three modes, alone and inside a batch (a few batches are filled up to 255..513 members with the subject at a chunk edge); a run is non-trivial when an RNG fault mode other than Healthy actually served bytes or the proof was verified inside a multi-member batch; distinct = distinct event-log hashes".into()
    }

    fn assumptions(&self) -> Vec<String> {
        vec![
            "FreePoint is a faithful group (free module); every configuration class also runs on real Ristretto".into(),
            "a zero Fiat-Shamir challenge (probability 2^-252) does not occur".into(),
            "sampling: a clean batch is evidence, not proof".into(),
        ]
    }

    fn components(&self) -> Value {
        super::components_native()
    }

    fn runs(&self, tier: Tier) -> u64 {
        match tier {
            Tier::Quick => 5_000,
            Tier::Thorough => 400_000,
        }
    }

    fn generate(&self, rng: &mut SimRng, tier: Tier, index: u64) -> Scenario {
        let ristretto = index % 8 == 7;
        let (max_full, max_m) = match (ristretto, tier) {
            (true, Tier::Quick) => (256, 8),
            (true, Tier::Thorough) => (2048, 32),
            (false, Tier::Quick) => (512, 32),
            (false, Tier::Thorough) => (2048, 32),
        };
        let cfg = Config::generate(rng, max_full, max_m);
        let wit = WitnessSpec::generate(rng, &cfg, true);
        let ctx = Context::generate(rng);
        let rng_mode = gen_rng_mode(rng, true);
        let mut batch_others = Vec::new();
        let mut batch_position = 0;
        if rng.chance(1, 3) {
            let n = rng.range(1, 4) as usize;
            for _ in 0..n {
                let m = *rng.pick(&[1usize, 1, 2, 4]);
                let m = if cfg.bits * m > max_full { 1 } else { m };
                let cap = if rng.chance(1, 3) { (m * 2).min(32) } else { m };
                let c = Config { bits: cfg.bits, m, cap, ext: cfg.ext };
                let w = WitnessSpec::generate(rng, &c, true);
                batch_others.push(Member { cfg: c, wit: w, ctx: Context::generate(rng) });
            }
            batch_position = rng.usize_below(n + 1);
        }
        // one run in 32 (free module, short vectors): the batch is filled up to a size around the chunk limit
        let mut batch_size = None;
        if !ristretto && !batch_others.is_empty() && cfg.full_length() <= 32 && batch_others.iter().all(|m| m.cfg.full_length() <= 32) && rng.chance(1, 10) {
            let k = *rng.pick(&[255usize, 256, 257, 258, 300, 511, 512, 513]);
            let k = if tier == Tier::Quick { k.min(300) } else { k };
            batch_size = Some(k);
            batch_position = match rng.below(5) {
                0 => k - 1,
                1 => 255.min(k - 1),
                2 => 256.min(k - 1),
                3 => 0,
                _ => rng.usize_below(k),
            };
        }
        Scenario {
            group: if ristretto { "ristretto".into() } else { "free".into() },
            cfg,
            wit,
            ctx,
            rng_mode,
            batch_others,
            batch_position,
            batch_size,
            pc_variant: if rng.chance(1, 8) { 1 + rng.below(5) as u8 } else { 0 },
            failed_attempt_first: rng.chance(1, 8),
        }
    }

    fn execute(&self, sc: &Scenario, st: &mut RunStats) -> Vec<Violation> {
        by_group!(sc.group, run(sc, st))
    }

    fn shrink(&self, sc: &Scenario) -> Vec<Scenario> {
        let mut v = Vec::new();
        if sc.pc_variant != 0 {
            let mut s = sc.clone();
            s.pc_variant = 0;
            v.push(s);
        }
        if !sc.batch_others.is_empty() {
            let mut s = sc.clone();
            s.batch_others.clear();
            s.batch_position = 0;
            s.batch_size = None;
            v.push(s);
            if sc.batch_others.len() > 1 {
                for i in 0..sc.batch_others.len() {
                    let mut s = sc.clone();
                    s.batch_others.remove(i);
                    s.batch_position = s.batch_position.min(s.batch_others.len());
                    v.push(s);
                }
            }
        }
        if sc.group != "free" {
            let mut s = sc.clone();
            s.group = "free".into();
            v.push(s);
        }
        if sc.failed_attempt_first {
            let mut s = sc.clone();
            s.failed_attempt_first = false;
            v.push(s);
        }
        if sc.rng_mode.is_faulty() {
            let mut s = sc.clone();
            s.rng_mode = RngMode::Healthy(1);
            v.push(s);
            if sc.rng_mode != RngMode::AllZero {
                let mut s = sc.clone();
                s.rng_mode = RngMode::AllZero;
                v.push(s);
            }
        }
        if sc.cfg.m > 1 {
            let mut s = sc.clone();
            s.cfg.m /= 2;
            s.cfg.cap = s.cfg.cap.max(s.cfg.m);
            s.wit.values.truncate(s.cfg.m);
            s.wit.promises.truncate(s.cfg.m);
            v.push(s);
        }
        if sc.cfg.cap > sc.cfg.m {
            let mut s = sc.clone();
            s.cfg.cap = s.cfg.m;
            v.push(s);
        }
        if sc.cfg.bits > 1 {
            let mut s = sc.clone();
            s.cfg.bits /= 2;
            let max = (1u64 << s.cfg.bits) - 1;
            for (val, p) in s.wit.values.iter_mut().zip(s.wit.promises.iter_mut()) {
                *val &= max;
                if let Some(pp) = p {
                    *pp = (*pp).min(*val);
                }
            }
            v.push(s);
        }
        if sc.cfg.ext > 1 {
            let mut s = sc.clone();
            s.cfg.ext = 1;
            v.push(s);
        }
        if sc.wit.seed_nonce.is_some() {
            let mut s = sc.clone();
            s.wit.seed_nonce = None;
            v.push(s);
        }
        if sc.wit.promises.iter().any(|p| p.is_some()) {
            let mut s = sc.clone();
            s.wit.promises.iter_mut().for_each(|p| *p = None);
            v.push(s);
        }
        if sc.wit.values.iter().any(|x| *x != 0) {
            let mut s = sc.clone();
            s.wit.values.iter_mut().for_each(|x| *x = 0);
            s.wit.promises.iter_mut().for_each(|p| {
                if p.is_some() {
                    *p = Some(0)
                }
            });
            v.push(s);
        }
        if sc.ctx.extra.is_some() || sc.ctx.label != 0 {
            let mut s = sc.clone();
            s.ctx = Context { label: 0, extra: None };
            v.push(s);
        }
        v
    }

    fn required_probes(&self, tier: Tier) -> Vec<&'static str> {
        let mut v = vec![
            "capacity_gt_m", "m_ge_8", "zero_round_proof", "bits_64", "seed_present", "promise_eq_value",
            "value_max", "value_zero", "ext_1", "ext_2", "ext_3", "ext_4", "ext_5", "ext_6", "bits_1", "bits_2",
            "bits_4", "bits_8", "bits_16", "bits_32", "rng_all_zero", "rng_all_ones", "rng_constant_byte",
            "rng_short_period", "rng_counter", "rng_stuck_after", "rng_replay", "rng_zero_block_at", "rng_repeat_block_at", "batch_context", "batch_beyond_one_chunk", "caller_supplied_related_generators", "byte_round_trip_verified", "serde_round_trip_verified", "failed_attempt_on_the_same_transcript_first",
        ];
        if tier == Tier::Thorough {
            v.push("bits_64");
        }
        v
    }
}
