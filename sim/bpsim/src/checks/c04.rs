//! C04 — Fiat–Shamir binding: each challenge depends on everything absorbed before it.
//!
//! For an accepted message, every datum that can be perturbed singly through the public API is
//! perturbed (a fault on one message field); the verifier (and, where possible, the prover) runs
//! with the merlin tap on for the original and the perturbed message; the two recorded challenge
//! sequences are the history the oracle is evaluated on.

use curve25519_dalek::scalar::Scalar;
use merlin::tap;
use serde::{Deserialize, Serialize};
use serde_json::Value;
use tari_bulletproofs_plus::range_proof::VerifyAction;

use crate::{
    by_group,
    channel::*,
    faultrng::{FaultRng, RngMode},
    group::Group,
    observe::TranscriptView,
    runner::{Check, RunStats, Tier, Violation},
    simrng::SimRng,
    world::*,
};

#[derive(Clone, Debug, Serialize, Deserialize)]
pub struct Scenario {
    pub group: String,
    pub cfg: Config,
    pub wit: WitnessSpec,
    pub ctx: Context,
    pub rng_seed: u64,
    pub fault_seed: u64,
    pub only: Option<usize>,
    /// if set: additionally verify a batch of this many members with pairwise different contexts
    /// and require that each member's challenges are those of its own (statement, proof, context)
    #[serde(default)]
    pub large_batch: Option<usize>,
}

pub struct C04;

/// challenges the verifier draws on the caller's transcript for `msg` (None if the message is
/// refused before any challenge is drawn)
fn verifier_challenges<G: Group>(msg: &Msg<G>) -> Result<Option<Vec<Scalar>>, Caught> {
    let opened = guarded(|| msg.open())?;
    let Delivered::Ready(st, proof) = opened else { return Ok(None) };
    tap::start();
    let mut trs = vec![msg.ctx.transcript()];
    let tid = trs[0].tap_id();
    let r = guarded(|| G::verify(&mut trs, std::slice::from_ref(&st), std::slice::from_ref(&proof), VerifyAction::VerifyOnly));
    let events = tap::stop();
    let _ = r?;
    match TranscriptView::from_events(&events, tid) {
        Ok(v) => Ok(Some(v.challenges)),
        Err(_) => Ok(None),
    }
}

/// challenges drawn for `msg` when it is verified as the SECOND member of a batch behind an honest
/// single-commitment companion (None if the batch is refused before any challenge is drawn)
fn verifier_challenges_in_batch<G: Group>(companion: &Msg<G>, msg: &Msg<G>, n_comp: usize) -> Result<Option<Vec<Scalar>>, Caught> {
    let (Delivered::Ready(cst, cpr), Delivered::Ready(st, proof)) = (guarded(|| companion.open())?, guarded(|| msg.open())?) else {
        return Ok(None);
    };
    tap::start();
    let mut trs: Vec<merlin::Transcript> = (0..n_comp).map(|_| companion.ctx.transcript()).collect();
    trs.push(msg.ctx.transcript());
    let tid = trs[n_comp].tap_id();
    let mut sts = vec![cst; n_comp];
    sts.push(st);
    let mut prs = vec![cpr; n_comp];
    prs.push(proof);
    let r = guarded(|| G::verify(&mut trs, &sts, &prs, VerifyAction::VerifyOnly));
    let events = tap::stop();
    let _ = r?;
    match TranscriptView::from_events(&events, tid) {
        Ok(v) if !v.challenges.is_empty() => Ok(Some(v.challenges)),
        _ => Ok(None),
    }
}

/// The challenges drawn on member `idx`'s own transcript while the whole batch is verified in `action`;
/// None if a member is refused by a constructor or the decoder. The flag tells whether the call returned Ok.
fn member_challenges<G: Group>(members: &[&Msg<G>], idx: usize, action: VerifyAction) -> Result<Option<(bool, Vec<Scalar>)>, Caught> {
    let mut sts = Vec::new();
    let mut prs = Vec::new();
    for m in members {
        match guarded(|| m.open())? {
            Delivered::Ready(s_, p) => {
                sts.push(s_);
                prs.push(p);
            },
            _ => return Ok(None),
        }
    }
    tap::start();
    let mut trs: Vec<merlin::Transcript> = members.iter().map(|m| m.ctx.transcript()).collect();
    let tid = trs[idx].tap_id();
    let r = guarded(|| G::verify(&mut trs, &sts, &prs, action));
    let events = tap::stop();
    let ok = r?.is_ok();
    match TranscriptView::from_events(&events, tid) {
        Ok(v) => Ok(Some((ok, v.challenges))),
        Err(_) => Ok(None),
    }
}

fn prover_challenges<G: Group>(cfg: &Config, wit: &WitnessSpec, ctx: &Context, rng_seed: u64) -> Option<Vec<Scalar>> {
    let built = build::<G>(cfg, wit);
    let mut frng = FaultRng::new(RngMode::Healthy(rng_seed));
    tap::start();
    let mut t = ctx.transcript();
    let tid = t.tap_id();
    let r = guarded(|| G::prove(&mut t, &built.statement, &built.witness, &mut frng));
    let events = tap::stop();
    match r {
        Ok(Ok(_)) => TranscriptView::from_events(&events, tid).ok().map(|v| v.challenges),
        _ => None,
    }
}

/// the perturbations of C04 with the ordinal of the first challenge that must change
fn perturbations<G: Group>(msg: &Msg<G>, parts: &ProofParts) -> Vec<(Fault, usize, String)> {
    let ext = parts.d1.len();
    let rounds = parts.lr.len();
    let mut v: Vec<(Fault, usize, String)> = Vec::new();
    v.push((Fault::ContextLabel, 0, "context label".into()));
    v.push((Fault::ContextExtra, 0, "context data".into()));
    v.push((Fault::GeneratorH(GenPart::Both), 0, "H".into()));
    v.push((Fault::GeneratorH(GenPart::CompressedOnly), 0, "H (encoding handed to the transcript)".into()));
    for k in 0..ext {
        v.push((Fault::GeneratorG { k, part: GenPart::Both }, 0, format!("G[{}]", k)));
    }
    v.push((Fault::Bits { double: true }, 0, "bit length x2".into()));
    v.push((Fault::Bits { double: false }, 0, "bit length /2".into()));
    for j in 0..msg.commitments.len() {
        v.push((Fault::ReplaceCommitment { j, with: PointRepl::Random }, 0, format!("commitment[{}]", j)));
        v.push((Fault::ReplaceCommitment { j, with: PointRepl::OtherHonest }, 0, format!("commitment[{}] + H", j)));
        v.push((Fault::ReplaceCommitment { j, with: PointRepl::Sibling }, 0, format!("commitment[{}] := another commitment of the same statement", j)));
        v.push((Fault::Promise { j, with: PromiseRepl::PlusOne }, 0, format!("promise[{}] + 1", j)));
        v.push((Fault::Promise { j, with: PromiseRepl::MinusOne }, 0, format!("promise[{}] - 1", j)));
        v.push((Fault::Promise { j, with: PromiseRepl::Toggle }, 0, format!("promise[{}] toggled", j)));
        v.push((Fault::Promise { j, with: PromiseRepl::Max }, 0, format!("promise[{}] = u64::MAX", j)));
    }
    for j in 0..msg.commitments.len() {
        for i in 0..j {
            v.push((Fault::SwapCommitments(i, j), 0, format!("order of commitments {} and {}", i, j)));
            v.push((Fault::SwapPromises(i, j), 0, format!("promises of commitments {} and {} exchanged", i, j)));
        }
    }
    for bit in [0usize, 7, 255] {
        v.push((Fault::GeneratorEncodingBit { k: None, bit }, 0, format!("bit {} of the encoding of H", bit)));
        for k in 0..ext {
            v.push((Fault::GeneratorEncodingBit { k: Some(k), bit }, 0, format!("bit {} of the encoding of G[{}]", bit, k)));
        }
    }
    let pt = |e: usize, first: usize, name: String, v: &mut Vec<(Fault, usize, String)>| {
        // single bits of the encoding (the challenge derivation reads the bytes, whether or not they decode)
        for bit in [0usize, 255] {
            v.push((Fault::FlipBit { elem: e, bit }, first, format!("bit {} of {}", bit, name)));
        }
        v.push((Fault::ReplacePoint { elem: e, with: PointRepl::Random }, first, name.clone()));
        v.push((Fault::ReplacePoint { elem: e, with: PointRepl::Sibling }, first, format!("{} (replaced by a sibling element)", name)));
    };
    pt(ext, 0, "A".into(), &mut v);
    for j in 0..rounds {
        pt(ext + 5 + 2 * j, 2 + j, format!("L[{}]", j), &mut v);
        pt(ext + 5 + 2 * j + 1, 2 + j, format!("R[{}]", j), &mut v);
    }
    pt(ext + 1, 2 + rounds, "A1".into(), &mut v);
    pt(ext + 2, 2 + rounds, "B".into(), &mut v);
    v
}

fn run<G: Group>(sc: &Scenario, st: &mut RunStats) -> Vec<Violation> {
    let mut out = Vec::new();
    st.group(G::NAME);
    let built = build::<G>(&sc.cfg, &sc.wit);
    let proof = match prove_mode::<G>(&sc.ctx, &built.statement, &built.witness, &RngMode::Healthy(sc.rng_seed)).0 {
        Ok(Ok(p)) => p,
        _ => {
            out.push(Violation::new("harness:prover_failed", "setup", format!("{:?}", sc.cfg)));
            return out;
        },
    };
    let msg = Msg::<G>::honest(&sc.cfg, &sc.wit, &sc.ctx, &built, &proof);
    let parts = ProofParts::parse(&msg.proof).expect("layout");
    let base = match verifier_challenges(&msg) {
        Ok(Some(c)) => c,
        other => {
            out.push(Violation::new("harness:baseline_unavailable", "setup", format!("{:?}", other.map(|o| o.map(|c| c.len())))));
            return out;
        },
    };
    let rounds = parts.lr.len();
    if base.len() != rounds + 3 {
        out.push(Violation::new("harness:observation_unavailable", "observe", format!("verifier drew {} challenges, expected {}", base.len(), rounds + 3)));
        return out;
    }
    // a prover message that cannot be absorbed (identity encoding as one L_j or R_j), in every mode: the verifier
    // has to refuse; an Ok reached with fewer challenges than the protocol has means later messages were never bound
    if rounds > 0 {
        let j = (sc.fault_seed % rounds as u64) as usize;
        let left = (sc.fault_seed >> 8) & 1 == 0;
        let mut p2 = ProofParts::parse(&msg.proof).expect("layout");
        let id_enc = G::enc(&G::identity());
        if left {
            p2.lr[j].0 = id_enc;
        } else {
            p2.lr[j].1 = id_enc;
        }
        let m2 = Msg::<G> {
            bits: msg.bits,
            cap: msg.cap,
            ext: msg.ext,
            pc: msg.pc.clone(),
            commitments: msg.commitments.clone(),
            promises: msg.promises.clone(),
            seed: msg.seed,
            ctx: msg.ctx.clone(),
            proof: p2.to_bytes(),
            force_seed: msg.force_seed,
        };
        for action in [VerifyAction::VerifyOnly, VerifyAction::RecoverAndVerify, VerifyAction::RecoverOnly] {
            match member_challenges::<G>(&[&m2], 0, action) {
                Ok(Some((ok, ch))) => {
                    st.evals += 1;
                    st.fault("unabsorbable_round_message");
                    if ok && ch.len() < rounds + 3 {
                        out.push(Violation::new(
                            "accepted_with_prover_messages_left_unabsorbed",
                            format!("{}{} {}", if left { "L" } else { "R" }, j, action_name(action)),
                            format!(
                                "{:?}: {}_{} is the identity encoding; {} returned Ok after drawing {} of {} challenges: every message after round {} is bound to nothing",
                                sc.cfg,
                                if left { "L" } else { "R" },
                                j,
                                action_name(action),
                                ch.len(),
                                rounds + 3,
                                j
                            ),
                        ));
                        return out;
                    }
                },
                Ok(None) => {},
                Err(c) => {
                    out.push(Violation::new("verifier_panicked", "panic", format!("{:?}", c)));
                    return out;
                },
            }
        }
    }
    // prover and verifier derive the same challenges on the honest message
    let pc = prover_challenges::<G>(&sc.cfg, &sc.wit, &sc.ctx, sc.rng_seed);
    st.evals += 1;
    st.event(format!(
        "baseline cfg={:?} challenges={} digest={}",
        sc.cfg,
        base.len(),
        crate::runner::digest(&[&base.iter().flat_map(|c| c.to_bytes()).collect::<Vec<u8>>()])
    ));
    if sc.only.is_none() {
        match &pc {
            Some(p) if *p == base => {},
            other => {
                out.push(Violation::new(
                    "prover_and_verifier_challenges_differ",
                    "baseline",
                    format!("cfg {:?}: prover drew {:?} challenges, verifier {}; sequences are not equal", sc.cfg, other.as_ref().map(|p| p.len()), base.len()),
                ));
                return out;
            },
        }
    }
    let frng = SimRng::new(sc.fault_seed);
    let perts = perturbations(&msg, &parts);
    let mut idx = 0usize;
    for (f, first, name) in perts.iter() {
        let i = idx;
        idx += 1;
        if let Some(o) = sc.only {
            if o != i {
                continue;
            }
        }
        let mut r = frng.split_idx("p", i as u64);
        let Some(bad) = apply_fault(&msg, f, &mut r) else {
            st.probe("perturbation_not_applicable");
            continue;
        };
        // keep promises inside the range check so that challenge derivation is not cut short
        if let Fault::Promise { j, .. } = f {
            if sc.cfg.bits < 64 && bad.promises[*j].unwrap_or(0) >> sc.cfg.bits > 0 {
                st.probe("perturbation_not_applicable");
                continue;
            }
        }
        let got = match verifier_challenges(&bad) {
            Ok(Some(c)) => c,
            Ok(None) => {
                st.probe("perturbed_message_refused_before_challenges");
                continue;
            },
            Err(c) => {
                out.push(Violation::new("verifier_panicked", "panic", format!("{:?}", c)));
                return out;
            },
        };
        st.fault(&format!("verifier_{}", f.kind()));
        st.evals += 1;
        st.event(format!("perturb#{} {} first={} drew={}", i, name, first, got.len()));
        if got.len() <= *first {
            st.probe("perturbed_run_ended_before_first_affected_challenge");
            continue;
        }
        for ord in 0..got.len().min(base.len()) {
            if ord < *first {
                if got[ord] != base[ord] {
                    out.push(Violation::new(
                        "harness:earlier_challenge_changed",
                        "observe",
                        format!("perturbing {} changed challenge {} which precedes it", name, ord),
                    ));
                    return out;
                }
            } else if got[ord] == base[ord] {
                out.push(Violation::new(
                    "challenge_independent_of_preceding_datum",
                    format!("verifier/{}", f.kind()),
                    format!(
                        "verifier, cfg {:?}, group {}: after changing {} the challenge with ordinal {} (of {}) is unchanged; every challenge from ordinal {} on must differ",
                        sc.cfg,
                        G::NAME,
                        name,
                        ord,
                        base.len(),
                        first
                    ),
                ));
                return out;
            }
        }
    }
    // batch context: the message is the second and (for m >= 2) strictly largest member behind an
    // honest single-commitment companion; its own generators and bit length must still reach its
    // challenges — or the batch must be refused before any challenge is drawn
    if sc.cfg.m >= 2 {
        let ccfg = Config { bits: sc.cfg.bits, m: 1, cap: 1, ext: sc.cfg.ext };
        let cwit = WitnessSpec { values: vec![0], promises: vec![None], blind_seed: sc.fault_seed ^ 0xC04, seed_nonce: None, zero_blind: vec![], same_as_prev: vec![], same_as_first: vec![], special_blind: None };
        let cctx = Context { label: 7, extra: None };
        let cb = build::<G>(&ccfg, &cwit);
        if let Ok(Ok(cp)) = prove_mode::<G>(&cctx, &cb.statement, &cb.witness, &RngMode::Healthy(sc.rng_seed ^ 2)).0 {
            let cmsg = Msg::<G>::honest(&ccfg, &cwit, &cctx, &cb, &cp);
            for n_comp in [1usize, 2] {
            if let Ok(Some(bbase)) = verifier_challenges_in_batch(&cmsg, &msg, n_comp) {
                let mut bf: Vec<(Fault, String)> = vec![(Fault::GeneratorH(GenPart::Both), "H".into()), (Fault::GeneratorH(GenPart::PointOnly), "H (point)".into())];
                for k in 0..sc.cfg.ext {
                    bf.push((Fault::GeneratorG { k, part: GenPart::Both }, format!("G[{}]", k)));
                }
                for (bi, (f, name)) in bf.iter().enumerate() {
                    if let Some(o) = sc.only {
                        if o != 20_000 + bi {
                            continue;
                        }
                    }
                    let mut r = frng.split_idx("b", bi as u64);
                    let Some(bad) = apply_fault(&msg, f, &mut r) else { continue };
                    match verifier_challenges_in_batch(&cmsg, &bad, n_comp) {
                        Ok(None) => st.probe("batch_refused_before_challenges"),
                        Err(c) => {
                            out.push(Violation::new("verifier_panicked", "panic", format!("{:?}", c)));
                            return out;
                        },
                        Ok(Some(got)) => {
                            st.evals += 1;
                            st.fault("verifier_batch_context_generator");
                            for ord in 0..got.len().min(bbase.len()) {
                                if got[ord] == bbase[ord] {
                                    out.push(Violation::new(
                                        "challenge_independent_of_preceding_datum",
                                        format!("verifier-batch/{}", f.kind()),
                                        format!(
                                            "verifier, batch [honest single commitment, cfg {:?}], group {}: after changing {} in the second member's statement its challenge with ordinal {} is unchanged (and the batch was not refused)",
                                            sc.cfg,
                                            G::NAME,
                                            name,
                                            ord
                                        ),
                                    ));
                                    return out;
                                }
                            }
                        },
                    }
                    st.evals += 1;
                    st.event(format!("batch-context perturb {} behind {} companion(s)", name, n_comp));
                }
            }
            }
        }
    }
    // position, company and mode: a member's challenges are a function of its own transcript, statement and
    // proof only, so they are the same alone and at any position of a batch, next to seeded, unseeded and
    // aggregated members, in every verifying mode in which they are drawn at all
    if sc.only.is_none() || sc.only == Some(40_000) {
        let mk = |m: usize, seeded: bool, tag: u64, label: usize| -> Option<Msg<G>> {
            let ccfg = Config { bits: sc.cfg.bits, m, cap: m, ext: sc.cfg.ext };
            let cwit = WitnessSpec {
                values: vec![0; m],
                promises: vec![None; m],
                blind_seed: sc.fault_seed ^ tag,
                seed_nonce: if seeded { Some((sc.fault_seed ^ tag) | 4) } else { None },
                zero_blind: vec![],
                same_as_prev: vec![], same_as_first: vec![],
                special_blind: None,
            };
            let cctx = Context { label, extra: Some(tag.to_le_bytes().to_vec()) };
            let cb = build::<G>(&ccfg, &cwit);
            match prove_mode::<G>(&cctx, &cb.statement, &cb.witness, &RngMode::Healthy(sc.rng_seed ^ tag)).0 {
                Ok(Ok(cp)) => Some(Msg::<G>::honest(&ccfg, &cwit, &cctx, &cb, &cp)),
                _ => None,
            }
        };
        let plain = mk(1, false, 0xA1, 7);
        let seeded = mk(1, true, 0xA2, 3);
        let aggregated = if sc.cfg.bits * 2 <= 64 { mk(2, false, 0xA3, 5) } else { None };
        if let (Some(plain), Some(seeded)) = (plain, seeded) {
            let mut arrangements: Vec<(Vec<&Msg<G>>, usize, &str)> = vec![
                (vec![&plain, &msg], 1, "[unseeded, subject]"),
                (vec![&msg, &plain], 0, "[subject, unseeded]"),
                (vec![&seeded, &msg], 1, "[seeded, subject]"),
                (vec![&plain, &seeded, &msg], 2, "[unseeded, seeded, subject]"),
                (vec![&seeded, &plain, &msg, &plain], 2, "[seeded, unseeded, subject, unseeded]"),
            ];
            if let Some(a) = &aggregated {
                arrangements.push((vec![a, &msg], 1, "[aggregated, subject]"));
                arrangements.push((vec![a, &seeded, &msg], 2, "[aggregated, seeded, subject]"));
            }
            for action in [VerifyAction::VerifyOnly, VerifyAction::RecoverAndVerify, VerifyAction::RecoverOnly] {
                let alone = match member_challenges(&[&msg], 0, action) {
                    Ok(Some((true, c))) => c,
                    Ok(_) => continue,
                    Err(c) => {
                        out.push(Violation::new("verifier_panicked", "panic", format!("{:?}", c)));
                        return out;
                    },
                };
                // in recover-only mode a member without a seed has nothing to recover; a verifier may or may
                // not replay its transcript
                let must_draw = !matches!(action, VerifyAction::RecoverOnly) || msg.seed.is_some();
                for (members, idx, name) in arrangements.iter() {
                    match member_challenges(members, *idx, action) {
                        Ok(Some((true, got))) => {
                            st.evals += 1;
                            st.fault("verifier_batch_position_and_mode");
                            if msg.seed.is_some() && matches!(action, VerifyAction::RecoverOnly) {
                                st.probe("seeded_subject_behind_other_members_in_recover_only");
                            }
                            if (must_draw || !got.is_empty()) && got != alone {
                                out.push(Violation::new(
                                    "challenge_depends_on_batch_position_or_company",
                                    format!("verifier-batch/{:?}", action),
                                    format!(
                                        "verifier, cfg {:?}, group {}, mode {:?}: in the batch {} the subject's own transcript yields {} challenges that differ from the {} it yields when the same triple is verified alone",
                                        sc.cfg,
                                        G::NAME,
                                        action,
                                        name,
                                        got.len(),
                                        alone.len()
                                    ),
                                ));
                                return out;
                            }
                        },
                        Ok(_) => {},
                        Err(c) => {
                            out.push(Violation::new("verifier_panicked", "panic", format!("{:?}", c)));
                            return out;
                        },
                    }
                }
            }
        }
    }
    // beyond the chunk limit: every member's transcript must still be bound to that member
    if let (Some(k), None) = (sc.large_batch, sc.only.filter(|o| *o != 30_000)) {
        let lcfg = Config { bits: 2, m: 1, cap: 1, ext: sc.cfg.ext };
        let mut msgs: Vec<Msg<G>> = Vec::with_capacity(k);
        for i in 0..k {
            let w = WitnessSpec { values: vec![(i % 4) as u64], promises: vec![None], blind_seed: sc.fault_seed ^ (i as u64) << 8, seed_nonce: None, zero_blind: vec![], same_as_prev: vec![], same_as_first: vec![], special_blind: None };
            let c = Context { label: i % LABELS.len(), extra: Some((i as u32).to_le_bytes().to_vec()) };
            let b = build::<G>(&lcfg, &w);
            match prove_mode::<G>(&c, &b.statement, &b.witness, &RngMode::Healthy(sc.rng_seed ^ i as u64)).0 {
                Ok(Ok(p)) => msgs.push(Msg::<G>::honest(&lcfg, &w, &c, &b, &p)),
                _ => {
                    out.push(Violation::new("harness:prover_failed", "setup", "large batch member".to_string()));
                    return out;
                },
            }
        }
        let mut sts = Vec::with_capacity(k);
        let mut prs = Vec::with_capacity(k);
        for m in &msgs {
            match guarded(|| m.open()) {
                Ok(Delivered::Ready(s_, p)) => {
                    sts.push(s_);
                    prs.push(p);
                },
                _ => {
                    out.push(Violation::new("harness:prover_failed", "setup", "large batch member does not open".to_string()));
                    return out;
                },
            }
        }
        tap::start();
        let mut trs: Vec<merlin::Transcript> = msgs.iter().map(|m| m.ctx.transcript()).collect();
        let tids: Vec<u64> = trs.iter().map(|t| t.tap_id()).collect();
        let r = guarded(|| G::verify(&mut trs, &sts, &prs, VerifyAction::VerifyOnly));
        let events = tap::stop();
        st.evals += 1;
        st.fault("large_batch_distinct_contexts");
        st.event(format!("large batch k={} -> {}", k, match &r { Ok(Ok(_)) => "Ok", Ok(Err(_)) => "Err", Err(_) => "PANIC" }));
        if let Err(c) = &r {
            out.push(Violation::new("verifier_panicked", "panic", format!("{:?}", c)));
            return out;
        }
        for sidx in [0usize, 1, 255, 256, k - 1] {
            if sidx >= k {
                continue;
            }
            let in_batch = TranscriptView::from_events(&events, tids[sidx]).map(|v| v.challenges).unwrap_or_default();
            let alone = match verifier_challenges(&msgs[sidx]) {
                Ok(Some(c)) => c,
                _ => continue,
            };
            st.evals += 1;
            if in_batch != alone {
                out.push(Violation::new(
                    "challenge_not_bound_to_own_context",
                    "large batch",
                    format!(
                        "batch of {} members with pairwise different transcript contexts: the challenges drawn on member {}'s transcript are not those of member {}'s own (statement, proof, context) — {} challenges in the batch vs {} alone",
                        k,
                        sidx,
                        sidx,
                        in_batch.len(),
                        alone.len()
                    ),
                ));
                return out;
            }
        }
    }
    // prover side: data that can be changed without touching anything else
    if let Some(pbase) = &pc {
        let mut variants: Vec<(String, Config, WitnessSpec, Context)> = Vec::new();
        let mut r = frng.split("prover");
        variants.push(("context".into(), sc.cfg, sc.wit.clone(), sc.ctx.other(&mut r)));
        for j in 0..sc.cfg.m {
            let cur = sc.wit.promises[j].unwrap_or(0);
            let np = if cur > 0 { cur - 1 } else if sc.wit.values[j] > 0 { 1 } else { continue };
            let mut w = sc.wit.clone();
            w.promises[j] = Some(np);
            variants.push((format!("promise[{}]", j), sc.cfg, w, sc.ctx.clone()));
        }
        let nb = if sc.cfg.bits == 64 { 32 } else { sc.cfg.bits * 2 };
        let lim = sc.cfg.bits.min(nb);
        let max: u64 = if lim >= 64 { u64::MAX } else { (1u64 << lim) - 1 };
        if sc.wit.values.iter().all(|v| *v <= max) && nb * sc.cfg.m <= 1024 {
            variants.push(("bit length".into(), Config { bits: nb, ..sc.cfg }, sc.wit.clone(), sc.ctx.clone()));
        }
        for (vi, (name, cfg, wit, ctx)) in variants.iter().enumerate() {
            if let Some(o) = sc.only {
                if o != 10_000 + vi {
                    continue;
                }
            }
            let Some(got) = prover_challenges::<G>(cfg, wit, ctx, sc.rng_seed) else { continue };
            st.fault("prover_side_perturbation");
            st.evals += 1;
            st.event(format!("prover perturb {} drew={}", name, got.len()));
            for ord in 0..got.len().min(pbase.len()) {
                if got[ord] == pbase[ord] {
                    out.push(Violation::new(
                        "challenge_independent_of_preceding_datum",
                        format!("prover/{}", name.split('[').next().unwrap_or("")),
                        format!("prover, cfg {:?}, group {}: after changing {} the challenge with ordinal {} is unchanged", sc.cfg, G::NAME, name, ord),
                    ));
                    return out;
                }
            }
        }
    }
    out
}

impl Check for C04 {
    type Scenario = Scenario;

    fn id(&self) -> &'static str {
        "C04"
    }

    fn level(&self) -> &'static str {
        "fault_enumeration"
    }

    fn rule(&self) -> String {
        "for each seeded accepted message every singly perturbable datum is faulted in turn: transcript context (label, data), H (both forms / encoding), each G_k, bit length x2 and /2, each commitment (random / +H), each promise (+1, -1, toggled; kept in range), each commitment swap, A, each L_j, each R_j, A1, B (random point / sibling element); the verifier runs with the merlin tap on for original and faulted message and the oracle requires every challenge with ordinal >= first(d) to differ (and those before to be equal: harness self-check); on the prover side context, a promise and the bit length are varied under the same RNG stream; prover and verifier sequences on the honest message must be equal; one evaluation = one tapped run compared; distinct = distinct event-log hashes; exhaustive over data positions per message, sampled over messages. Aggregation factor and extension degree cannot be perturbed alone through the public API (stated gap). Position, company and mode: the challenges drawn on a member's own transcript are compared alone and in seven batch arrangements (behind and before unseeded, seeded and aggregated members) in all three verifying modes.".into()
    }

    fn assumptions(&self) -> Vec<String> {
        vec![
            "challenges are identified by ordinal on the caller's transcript (1st = y, 2nd = z, then one per round, last = final e), never by label".into(),
            "two different transcript states yield different 512-bit challenge outputs except with negligible probability".into(),
            "a perturbation is a replacement by a decodable non-identity point / an integer that still passes the constructors and the promise-range check, so that challenge derivation is not cut short".into(),
        ]
    }

    fn components(&self) -> Value {
        super::components_native()
    }

    fn runs(&self, tier: Tier) -> u64 {
        match tier {
            Tier::Quick => 400,
            Tier::Thorough => 20_000,
        }
    }

    fn generate(&self, rng: &mut SimRng, tier: Tier, index: u64) -> Scenario {
        let ristretto = index % 4 == 3;
        let max_full = match (ristretto, tier) {
            (true, Tier::Quick) => 64,
            (true, Tier::Thorough) => 256,
            (false, Tier::Quick) => 128,
            (false, Tier::Thorough) => 512,
        };
        let mut cfg;
        loop {
            cfg = Config::generate(rng, max_full, 8);
            if cfg.full_length() >= 2 {
                break;
            }
        }
        let mut wit = WitnessSpec::generate(rng, &cfg, true);
        // make promise perturbations applicable often: positive values with room on both sides
        for (v, p) in wit.values.iter_mut().zip(wit.promises.iter_mut()) {
            if cfg.bits >= 2 && *v < 2 {
                *v = 2;
            }
            if rng.chance(1, 2) && *v >= 2 {
                *p = Some(1);
            }
        }
        Scenario {
            group: if ristretto { "ristretto".into() } else { "free".into() },
            cfg,
            wit,
            ctx: Context::generate(rng),
            rng_seed: rng.next_u64(),
            fault_seed: rng.next_u64(),
            only: None,
            large_batch: if !ristretto && index % 16 == 5 { Some(*rng.pick(&[257usize, 300, 513])) } else { None },
        }
    }

    fn execute(&self, sc: &Scenario, st: &mut RunStats) -> Vec<Violation> {
        by_group!(sc.group, run(sc, st))
    }

    fn shrink(&self, sc: &Scenario) -> Vec<Scenario> {
        let mut v = Vec::new();
        if sc.only.is_none() {
            for i in 0..200 {
                let mut s = sc.clone();
                s.only = Some(i);
                v.push(s);
            }
            for i in 0..40 {
                let mut s = sc.clone();
                s.only = Some(10_000 + i);
                v.push(s);
            }
            for i in 0..16 {
                let mut s = sc.clone();
                s.only = Some(20_000 + i);
                v.push(s);
            }
            if sc.large_batch.is_some() {
                let mut s = sc.clone();
                s.only = Some(30_000);
                v.push(s);
                let mut s = sc.clone();
                s.large_batch = None;
                v.push(s);
            }
        }
        if sc.group != "free" {
            let mut s = sc.clone();
            s.group = "free".into();
            v.push(s);
        }
        v
    }

    fn required_probes(&self, _tier: Tier) -> Vec<&'static str> {
        vec![
            "verifier_context_label", "verifier_context_extra", "verifier_generator_h", "verifier_generator_g", "verifier_bits",
            "verifier_replace_commitment", "verifier_promise", "verifier_swap_commitments", "verifier_replace_point", "verifier_flip_bit", "verifier_generator_encoding_bit",
            "prover_side_perturbation", "batch_refused_before_challenges", "large_batch_distinct_contexts",
            "verifier_batch_position_and_mode", "seeded_subject_behind_other_members_in_recover_only",
        ]
    }
}
