//! C13 — every blinding nonce in a proof is fresh and unpredictable.
//!
//! A history of prover runs over few statements (so that repeats are possible) is recorded; the
//! nonces of every proof are read as coordinates of the proof points over the free module and
//! entered into the run's nonce ledger.

use std::collections::HashMap;

use curve25519_dalek::scalar::Scalar;
use serde::{Deserialize, Serialize};
use serde_json::Value;

use crate::{
    faultrng::RngMode,
    free::FreePoint,
    observe::*,
    runner::{Check, RunStats, Tier, Violation},
    simrng::SimRng,
    world::*,
};

#[derive(Clone, Debug, Serialize, Deserialize)]
pub struct Subject {
    pub cfg: Config,
    pub wit: WitnessSpec,
}

#[derive(Clone, Debug, Serialize, Deserialize)]
pub struct ProverRun {
    pub subject: usize,
    pub ctx: usize,
    /// seed of the healthy external RNG stream of this run
    pub stream: u64,
    /// if set, the run is served this failing stream instead; only the within-proof oracles apply
    /// to it ("each message is hidden by its own nonce" holds for whatever RNG the prover is handed)
    #[serde(default)]
    pub failing: Option<RngMode>,
    /// the prover receives a zero-sized handle onto the generator instead of the generator itself
    #[serde(default)]
    pub via_handle: bool,
}

#[derive(Clone, Debug, Serialize, Deserialize)]
pub struct Scenario {
    pub subjects: Vec<Subject>,
    pub ctxs: Vec<Context>,
    pub history: Vec<ProverRun>,
}

pub struct C13;

fn execute(sc: &Scenario, st: &mut RunStats) -> Vec<Violation> {
    let mut out = Vec::new();
    st.group("free");
    let built: Vec<Built<FreePoint>> = sc.subjects.iter().map(|s| build::<FreePoint>(&s.cfg, &s.wit)).collect();
    // ledger: nonce value -> (history index, nonce name, stream)
    let mut ledger: HashMap<[u8; 32], (usize, String, u64)> = HashMap::new();
    for (hi, run) in sc.history.iter().enumerate() {
        let subj = &sc.subjects[run.subject];
        let b = &built[run.subject];
        let seeded = subj.wit.seed_nonce.is_some();
        match subj.wit.seed_nonce {
            Some(0) => st.probe("seed_is_zero"),
            Some(1) => st.probe("seed_is_one"),
            Some(2) => st.probe("seed_is_minus_one"),
            Some(3) => st.probe("seed_is_two_to_252"),
            _ => {},
        }
        let mode = run.failing.clone().unwrap_or(RngMode::Healthy(run.stream));
        if run.failing.is_some() {
            st.fault(&format!("rng_{}", mode.kind()));
        }
        if run.via_handle {
            st.fault("prover_served_through_zero_sized_handle");
        }
        let obs = match crate::faultrng::with_handle(run.via_handle, || observe_prove(&sc.ctxs[run.ctx], &b.params, &b.statement, &b.witness, &mode)) {
            Ok(ProveOutcome::Proved(o)) => o,
            Ok(_) => {
                out.push(Violation::new("harness:prover_failed", "setup", format!("history[{}] did not produce a proof", hi)));
                return out;
            },
            Err(e) => {
                out.push(Violation::new("harness:observation_unavailable", "observe", e.0));
                return out;
            },
        };
        st.evals += 1;
        st.steps += obs.frng_calls as u64;
        let all = obs.nonces.all();
        st.event(format!(
            "history[{}] subject={} ctx={} stream={:x} seeded={} nonces={} digest={}",
            hi,
            run.subject,
            run.ctx,
            run.stream,
            seeded,
            all.len(),
            crate::runner::digest(&[&G_bytes(&all)])
        ));
        if hi > 0 {
            st.nontrivial = true;
        }
        // within the proof: non-zero, pairwise distinct
        let key_cfg = format!("{:?}", subj.cfg);
        for (i, (n, v)) in all.iter().enumerate() {
            if *v == Scalar::ZERO {
                out.push(Violation::new(
                    "nonce_is_zero",
                    n.clone(),
                    format!("history[{}]: nonce {} is zero (cfg {})", hi, n, key_cfg),
                ));
                return out;
            }
            for (n2, v2) in all.iter().take(i) {
                if v == v2 {
                    out.push(Violation::new(
                        "nonce_repeated_within_proof",
                        format!("{}={}", n2, n),
                        format!("history[{}]: nonces {} and {} of one proof are equal (cfg {}, seeded={})", hi, n2, n, key_cfg, seeded),
                    ));
                    return out;
                }
            }
        }
        // with a seed: the seed-derived nonces are exactly the documented function of the seed
        if seeded {
            st.probe("seeded_run");
            let seed = subj.wit.seed().unwrap();
            let check = |name: String, got: Scalar, label: &str, j: Option<usize>, k: usize| -> Option<Violation> {
                let want = reference_nonce(&seed, label, j, Some(k));
                if got != want {
                    Some(Violation::new(
                        "seed_nonce_differs_from_documented_function",
                        format!("{}", label),
                        format!(
                            "history[{}]: {} is not BLAKE2b(key=0||seed{}||k{}, persona=\"{}\") (cfg {})",
                            hi,
                            name,
                            j.map(|j| format!("||j{}", j)).unwrap_or_default(),
                            k,
                            label,
                            key_cfg
                        ),
                    ))
                } else {
                    None
                }
            };
            let n = &obs.nonces;
            let mut bad = None;
            for k in 0..subj.cfg.ext {
                bad = bad
                    .or_else(|| check(format!("alpha[{}]", k), n.alpha[k], "alpha", None, k))
                    .or_else(|| check(format!("d[{}]", k), n.d[k], "d", None, k))
                    .or_else(|| check(format!("eta[{}]", k), n.eta[k], "eta", None, k));
                for j in 0..n.dl.len() {
                    bad = bad
                        .or_else(|| check(format!("dL[{}][{}]", j, k), n.dl[j][k], "dL", Some(j), k))
                        .or_else(|| check(format!("dR[{}][{}]", j, k), n.dr[j][k], "dR", Some(j), k));
                }
            }
            if let Some(v) = bad {
                out.push(v);
                return out;
            }
        } else {
            st.probe("unseeded_run");
        }
        // a stream that is healthy except for ONE degenerate read still differs from every other
        // such stream (different seeds): proofs made with them are "made with different randomness"
        // and stay in the ledger; wholly degenerate streams are only checked within the proof
        let partly = matches!(run.failing, Some(RngMode::ZeroBlockAt(..)) | Some(RngMode::RepeatBlockAt(..)));
        if partly {
            st.probe("one_degenerate_read_in_otherwise_different_streams");
        }
        if run.failing.is_some() && !partly {
            st.probe("within_proof_oracles_under_failing_rng");
            continue;
        }
        // With one degenerate read at position p, the nonces drawn from the transcript-RNG instance
        // that was finalised with exactly that external block may legitimately coincide with another
        // run's; every other nonce — in particular one drawn from an instance that consumed NO
        // fresh external block — must still differ. Which instance a nonce came from, and which
        // external block that instance consumed, is read off the tap and the simulator's RNG log.
        let mut exempt: Vec<[u8; 32]> = Vec::new();
        if let Some(RngMode::ZeroBlockAt(p, _)) = &run.failing {
            let served: Vec<&[u8]> = obs.served.chunks(32).collect();
            let mut next_read = 0usize;
            let mut current: Option<usize> = None; // external read index consumed by the current instance
            for e in &obs.view.events {
                match e {
                    merlin::tap::Event::RngFinalize { ext, .. } => {
                        if next_read < served.len() && served[next_read] == &ext[..] {
                            current = Some(next_read);
                            next_read += 1;
                        } else {
                            current = None;
                        }
                    },
                    merlin::tap::Event::RngOutput { out: o, .. } => {
                        if current == Some(*p - 1) {
                            if let Some(sv) = challenge_scalar(o) {
                                exempt.push(sv.to_bytes());
                            }
                        }
                    },
                    _ => {},
                }
            }
            st.probe_n("nonces_exempt_because_drawn_after_the_degenerate_read", exempt.len() as u64);
        }
        // across the history: RNG-derived nonces never repeat between runs with different streams
        for (n, v) in obs.nonces.rng_derived(seeded) {
            let kb = v.to_bytes();
            if exempt.contains(&kb) {
                continue;
            }
            if let Some((h0, n0, s0)) = ledger.get(&kb) {
                if *s0 != run.stream {
                    let same_subject = sc.history[*h0].subject == run.subject && sc.history[*h0].ctx == run.ctx;
                    out.push(Violation::new(
                        "nonce_repeated_across_proofs",
                        format!("{}~{}", n0, n),
                        format!(
                            "nonce {} of history[{}] equals nonce {} of history[{}] although the two prover runs used different RNG streams ({:x} vs {:x}); same statement/witness/context: {}; seeded: {}",
                            n, hi, n0, h0, run.stream, s0, same_subject, seeded
                        ),
                    ));
                    return out;
                }
            } else {
                ledger.insert(kb, (hi, n, run.stream));
            }
        }
        if sc.history.iter().take(hi).any(|h| h.subject == run.subject && h.ctx == run.ctx && h.stream != run.stream) {
            st.fault("same_statement_reproved_under_other_stream");
        }
        if sc.history.iter().take(hi).any(|h| h.subject != run.subject && sc.subjects[h.subject].wit.seed_nonce.is_some()
            && sc.subjects[h.subject].wit.seed_nonce == subj.wit.seed_nonce)
        {
            st.fault("same_seed_other_statement");
        }
    }
    out
}

#[allow(non_snake_case)]
fn G_bytes(all: &[(String, Scalar)]) -> Vec<u8> {
    let mut v = Vec::new();
    for (_, s) in all {
        v.extend_from_slice(s.as_bytes());
    }
    v
}

impl Check for C13 {
    type Scenario = Scenario;

    fn id(&self) -> &'static str {
        "C13"
    }

    fn level(&self) -> &'static str {
        "exploration"
    }

    fn rule(&self) -> String {
        "each seeded run is a history of 12-120 prover runs over 1-3 statements and 1-2 contexts (same witness/statement/context re-proved under different healthy RNG streams; different witnesses; with and without recovery seed; one seed shared by different statements); after each proof all ext*(2*rounds+3)+2 nonces are read as free-module coordinates of A, L_j, R_j, A1, B (gated by the B[H]=r*y*s self-check); one evaluation = one observed proof; distinct = distinct event-log hashes of histories with at least two runs A quarter of the prover runs receive the external RNG as a zero-sized handle onto the simulator's generator; boundary seeds (0, 1, -1, 2^252) are drawn explicitly.".into()
    }

    fn assumptions(&self) -> Vec<String> {
        vec![
            "nonces are observable only over the free module (real code of the prover, stub group)".into(),
            "'unpredictable' is decided here as: non-zero, distinct within a proof, never repeated across prover runs with different RNG streams, equal to the documented keyed hash when seed-derived; dependence on the witness under RNG failure is C14".into(),
            "the reference nonce function is the harness's reading of the documentation (keyed BLAKE2b-512, label as personalisation, j/k indices domain-separated)".into(),
        ]
    }

    fn components(&self) -> Value {
        super::components_native()
    }

    fn runs(&self, tier: Tier) -> u64 {
        match tier {
            Tier::Quick => 480,
            Tier::Thorough => 40_000,
        }
    }

    fn generate(&self, rng: &mut SimRng, tier: Tier, _index: u64) -> Scenario {
        let n_subj = rng.range(1, 3) as usize;
        let shared_seed = rng.next_u64();
        let mut subjects = Vec::new();
        for i in 0..n_subj {
            let mut cfg = Config::generate(rng, if tier == Tier::Quick { 64 } else { 256 }, 8);
            if i > 0 && rng.chance(1, 2) {
                cfg = subjects[0_usize..].first().map(|s: &Subject| s.cfg).unwrap_or(cfg);
            }
            let mut wit = WitnessSpec::generate(rng, &cfg, true);
            if cfg.m == 1 && rng.chance(1, 2) {
                // the same seed protects several statements
                wit.seed_nonce = Some(shared_seed);
            }
            if cfg.m == 1 && rng.chance(1, 6) {
                // boundary seeds: the scalars zero, one, minus one and 2^252
                wit.seed_nonce = Some(rng.below(4));
            }
            subjects.push(Subject { cfg, wit });
        }
        let ctxs: Vec<Context> = (0..rng.range(1, 2)).map(|_| Context::generate(rng)).collect();
        let n_hist = rng.range(12, if tier == Tier::Quick { 60 } else { 120 }) as usize;
        let mut history: Vec<ProverRun> = (0..n_hist)
            .map(|_| ProverRun {
                subject: rng.usize_below(n_subj),
                ctx: rng.usize_below(ctxs.len()),
                stream: rng.next_u64(),
                failing: if rng.chance(1, 6) { Some(crate::checks::c01::gen_rng_mode(rng, false)) } else { None },
                via_handle: rng.chance(1, 4),
            })
            .collect();
        // campaign: the same statement and context proved several times with streams that differ
        // everywhere except for one degenerate read at a fixed position
        if rng.chance(1, 2) {
            let subject = rng.usize_below(n_subj);
            let ctx = rng.usize_below(ctxs.len());
            let pos = rng.range(1, 5) as usize;
            let zero = rng.chance(1, 2);
            for _ in 0..rng.range(2, 4) {
                let seed = rng.next_u64();
                let at = rng.usize_below(history.len() + 1);
                history.insert(at, ProverRun {
                    subject,
                    ctx,
                    stream: seed,
                    failing: Some(if zero || pos < 2 { RngMode::ZeroBlockAt(pos, seed) } else { RngMode::RepeatBlockAt(pos, seed) }),
                    via_handle: false,
                });
            }
        }
        Scenario { subjects, ctxs, history }
    }

    fn execute(&self, sc: &Scenario, st: &mut RunStats) -> Vec<Violation> {
        execute(sc, st)
    }

    fn shrink(&self, sc: &Scenario) -> Vec<Scenario> {
        let mut v = Vec::new();
        let n = sc.history.len();
        if n > 2 {
            // keep the last run and one earlier run
            for i in (0..n - 1).rev() {
                let mut s = sc.clone();
                s.history = vec![sc.history[i].clone(), sc.history[n - 1].clone()];
                v.push(s);
            }
            let mut s = sc.clone();
            s.history.truncate(n - 1);
            v.push(s);
        }
        if n == 2 {
            for i in 0..2 {
                let mut s = sc.clone();
                s.history = vec![sc.history[i].clone()];
                v.push(s);
            }
        }
        for (i, sub) in sc.subjects.iter().enumerate() {
            if sub.cfg.ext > 1 {
                let mut s = sc.clone();
                s.subjects[i].cfg.ext = 1;
                v.push(s);
            }
            if sub.cfg.cap > sub.cfg.m {
                let mut s = sc.clone();
                s.subjects[i].cfg.cap = sub.cfg.m;
                v.push(s);
            }
        }
        v
    }

    fn required_probes(&self, _tier: Tier) -> Vec<&'static str> {
        vec![
            "seeded_run", "unseeded_run", "same_statement_reproved_under_other_stream", "same_seed_other_statement",
            "within_proof_oracles_under_failing_rng",
            "one_degenerate_read_in_otherwise_different_streams",
            "prover_served_through_zero_sized_handle", "seed_is_zero", "seed_is_one", "seed_is_minus_one", "seed_is_two_to_252",
        ]
    }
}
