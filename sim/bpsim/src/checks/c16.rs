//! C16 — decoding and verification never panic, abort or allocate without bound on untrusted
//! input. A hostile channel delivers the cross product of proof shapes, statement shapes, batch
//! shapes and modes; honest messages with stacked channel faults; random byte strings.
//! Runs are executed in child processes with a write-ahead run id so that an abort (stack
//! overflow, allocation failure, double panic) is attributed to a run.

use curve25519_dalek::scalar::Scalar;
use merlin::Transcript;
use serde::{Deserialize, Serialize};
use serde_json::Value;
use tari_bulletproofs_plus::{range_proof::RangeProof, range_statement::RangeStatement};

use crate::{
    alloc, by_group,
    channel::*,
    faultrng::RngMode,
    free,
    group::Group,
    runner::{Check, RunStats, Tier, Violation},
    simrng::SimRng,
    world::*,
};

#[derive(Clone, Debug, Serialize, Deserialize, PartialEq, Eq)]
pub enum ElemClass {
    Random,
    ValidPoint,
    Identity,
    Undecodable,
    NonCanonical,
    AllOnes,
}

#[derive(Clone, Debug, Serialize, Deserialize)]
pub struct ProofShape {
    pub tag: u8,
    pub n_d1: usize,
    pub rounds: usize,
    /// bytes added (+) or removed (-) at the end
    pub len_delta: i32,
    pub class: ElemClass,
    pub seed: u64,
}

#[derive(Clone, Debug, Serialize, Deserialize)]
pub struct StShape {
    pub bits: usize,
    pub m: usize,
    pub cap: usize,
    pub ext: usize,
    /// 0 none, 1 zero, 2 random, 3 2^bits, 4 u64::MAX
    pub promise_kind: u8,
    pub with_seed: bool,
    pub identity_commitment: bool,
    pub seed: u64,
    /// number of promises minus number of commitments (constructor must refuse non-zero)
    #[serde(default)]
    pub d_promises: i32,
}

#[derive(Clone, Debug, Serialize, Deserialize)]
pub enum ProofSrc {
    Shaped(ProofShape),
    RandomBytes { len: usize, seed: u64 },
    /// an honest proof for the member's own statement with channel faults stacked on it
    Faulted { wit: WitnessSpec, rng_seed: u64, faults: Vec<Fault>, fault_seed: u64 },
}

#[derive(Clone, Debug, Serialize, Deserialize)]
pub struct Member {
    pub st: StShape,
    pub proof: ProofSrc,
    pub ctx: Context,
}

#[derive(Clone, Debug, Serialize, Deserialize)]
pub struct Case {
    pub members: Vec<Member>,
    /// how many extra (+) or fewer (-) transcripts / statements / proofs are passed
    pub d_transcripts: i32,
    pub d_statements: i32,
    pub d_proofs: i32,
    pub action: usize,
    /// repeat the first member this many times (batch sizes across the chunk limit)
    pub repeat_first: usize,
}

#[derive(Clone, Debug, Serialize, Deserialize)]
pub struct Scenario {
    pub group: String,
    pub cases: Vec<Case>,
}

pub struct C16;

fn shaped_bytes<G: Group>(sh: &ProofShape) -> Vec<u8> {
    let mut r = SimRng::new(sh.seed);
    let n = sh.n_d1 + 5 + 2 * sh.rounds;
    let mut v = Vec::with_capacity(1 + 32 * n + 64);
    v.push(sh.tag);
    for e in 0..n {
        let is_scalar = e < sh.n_d1 || e == sh.n_d1 + 3 || e == sh.n_d1 + 4;
        let b: [u8; 32] = match sh.class {
            ElemClass::Random => {
                if is_scalar {
                    r.scalar().to_bytes()
                } else {
                    r.bytes32()
                }
            },
            ElemClass::ValidPoint => {
                if is_scalar {
                    r.scalar().to_bytes()
                } else {
                    G::enc(&G::random_point(&mut r))
                }
            },
            ElemClass::Identity => [0u8; 32],
            ElemClass::Undecodable => {
                if is_scalar {
                    r.scalar().to_bytes()
                } else {
                    G::undecodable(&mut r)
                }
            },
            ElemClass::NonCanonical => {
                if is_scalar {
                    non_canonical(&r.scalar().to_bytes())
                } else {
                    G::enc(&G::random_point(&mut r))
                }
            },
            ElemClass::AllOnes => [0xff; 32],
        };
        v.extend_from_slice(&b);
    }
    if sh.len_delta > 0 {
        let mut extra = vec![0u8; sh.len_delta as usize];
        r.fill(&mut extra);
        v.extend_from_slice(&extra);
    } else if sh.len_delta < 0 {
        let cut = (-sh.len_delta) as usize;
        let l = v.len().saturating_sub(cut);
        v.truncate(l);
    }
    v
}

struct Prepared<G: Group> {
    msg: Msg<G>,
    elements: usize,
}

fn prepare<G: Group>(m: &Member) -> Prepared<G> {
    let mut r = SimRng::new(m.st.seed);
    let promise = |r: &mut SimRng| match m.st.promise_kind {
        0 => None,
        1 => Some(0),
        2 => Some(r.next_u64() >> r.below(64)),
        3 => Some(if m.st.bits >= 64 { u64::MAX } else { 1u64 << m.st.bits }),
        _ => Some(u64::MAX),
    };
    let (commitments, promises, proof): (Vec<G>, Vec<Option<u64>>, Vec<u8>) = match &m.proof {
        ProofSrc::Faulted { wit, rng_seed, faults, fault_seed } => {
            let cfg = Config { bits: m.st.bits, m: m.st.m, cap: m.st.cap, ext: m.st.ext };
            let built = build::<G>(&cfg, wit);
            let proof = match prove_mode::<G>(&m.ctx, &built.statement, &built.witness, &RngMode::Healthy(*rng_seed)).0 {
                Ok(Ok(p)) => G::to_bytes(&p),
                _ => vec![1u8; 1 + 32 * 8],
            };
            let mut msg = Msg {
                bits: cfg.bits,
                cap: cfg.cap,
                ext: cfg.ext,
                pc: None,
                commitments: built.commitments.clone(),
                promises: wit.promises.clone(),
                seed: wit.seed(),
                ctx: m.ctx.clone(),
                proof,
                force_seed: None,
            };
            let fr = SimRng::new(*fault_seed);
            for (i, f) in faults.iter().enumerate() {
                if let Some(n) = apply_fault(&msg, f, &mut fr.split_idx("f", i as u64)) {
                    msg = n;
                }
            }
            let el = msg.proof.len() / 32;
            return Prepared { msg, elements: el };
        },
        ProofSrc::Shaped(sh) => {
            let c: Vec<G> = (0..m.st.m)
                .map(|_| if m.st.identity_commitment { G::identity() } else { G::random_point(&mut r) })
                .collect();
            let np = (m.st.m as i64 + m.st.d_promises as i64).max(0) as usize;
            let p: Vec<Option<u64>> = (0..np).map(|_| promise(&mut r)).collect();
            (c, p, shaped_bytes::<G>(sh))
        },
        ProofSrc::RandomBytes { len, seed } => {
            let c: Vec<G> = (0..m.st.m).map(|_| G::random_point(&mut r)).collect();
            let p: Vec<Option<u64>> = (0..m.st.m).map(|_| promise(&mut r)).collect();
            let mut b = vec![0u8; *len];
            SimRng::new(*seed).fill(&mut b);
            // half of the random strings get a plausible header so that they reach deeper
            if *seed % 2 == 0 && !b.is_empty() {
                b[0] = 1 + (b[0] % 6);
            }
            (c, p, b)
        },
    };
    let el = proof.len() / 32;
    Prepared {
        msg: Msg {
            bits: m.st.bits,
            cap: m.st.cap,
            ext: m.st.ext,
            pc: None,
            commitments,
            promises,
            seed: if m.st.with_seed { Some(scalar_from_seed("c16seed", m.st.seed, 0)) } else { None },
            ctx: m.ctx.clone(),
            proof,
            force_seed: None,
        },
        elements: el,
    }
}

fn run<G: Group>(sc: &Scenario, st: &mut RunStats) -> Vec<Violation> {
    let mut out = Vec::new();
    st.group(G::NAME);
    for (ci, case) in sc.cases.iter().enumerate() {
        // --- harness-side preparation (not measured) ---
        let prepared: Vec<Prepared<G>> = case.members.iter().map(|m| prepare::<G>(m)).collect();
        let mut input_bytes = 0usize;
        let mut elements = 0usize;
        let mut table = 0usize;
        let mut sum_m = 0usize;
        let rep = |i: usize| if i == 0 { 1 + case.repeat_first } else { 1 };
        for (i, p) in prepared.iter().enumerate() {
            input_bytes += p.msg.proof.len() * rep(i);
            elements += p.elements * rep(i);
            table = table.max(2 * p.msg.bits * p.msg.cap);
            sum_m += p.msg.commitments.len() * rep(i);
        }
        // --- decoding and statement construction: measured, guarded ---
        alloc::window_start();
        free::reset_work();
        // the other decoding surfaces: the announced extension degree and the serde form (bincode:
        // u64 length prefix + bytes; also with a lying length prefix)
        let other_surfaces = guarded(|| {
            for p in prepared.iter() {
                let _ = G::ext_from_bytes(&p.msg.proof);
                let mut framed = (p.msg.proof.len() as u64).to_le_bytes().to_vec();
                framed.extend_from_slice(&p.msg.proof);
                let _ = G::serde_in(&framed);
                let _ = G::serde_in(&p.msg.proof);
                if p.msg.proof.len() >= 8 {
                    let mut lying = framed.clone();
                    lying[0] = lying[0].wrapping_add(1);
                    let _ = G::serde_in(&lying);
                }
            }
        });
        st.evals += 1;
        if let Err(c) = other_surfaces {
            out.push(Violation::new(
                "panic_in_decoding_or_constructors",
                "serde / extension_degree_from_proof_bytes",
                format!("case {}: {:?}", ci, c),
            ));
            return out;
        }
        let opened = guarded(|| prepared.iter().map(|p| p.msg.open()).collect::<Vec<_>>());
        st.evals += 1;
        let opened = match opened {
            Ok(o) => o,
            Err(c) => {
                out.push(Violation::new(
                    "panic_in_decoding_or_constructors",
                    format!("case {:?}", case.members.first().map(|m| &m.proof)),
                    format!("case {}: {:?}", ci, c),
                ));
                return out;
            },
        };
        let mut sts: Vec<RangeStatement<G>> = Vec::new();
        let mut proofs: Vec<RangeProof<G>> = Vec::new();
        let mut ctxs: Vec<&Context> = Vec::new();
        let mut refused = 0;
        for (i, o) in opened.into_iter().enumerate() {
            match o {
                Delivered::Ready(s, p) => {
                    for _ in 0..rep(i) {
                        sts.push(s.clone());
                        proofs.push(p.clone());
                        ctxs.push(&prepared[i].msg.ctx);
                    }
                    st.probe("decoded_and_constructed");
                },
                Delivered::Refused(e) => {
                    refused += 1;
                    st.probe(if e.starts_with("from_bytes") { "refused_by_decoder" } else { "refused_by_constructor" });
                },
            }
        }
        st.event(format!("case{} members={} decoded={} refused={}", ci, case.members.len(), sts.len(), refused));
        // --- sequence-length faults ---
        let adj = |n: usize, d: i32| -> usize { (n as i64 + d as i64).max(0) as usize };
        let (nt, ns, np) = (adj(ctxs.len(), case.d_transcripts), adj(sts.len(), case.d_statements), adj(proofs.len(), case.d_proofs));
        let take_cyc = |n: usize, len: usize| -> Vec<usize> { (0..n).map(|i| if len == 0 { 0 } else { i % len }).collect() };
        if sts.is_empty() && (ns > 0 || np > 0 || nt > 0) {
            // nothing decodable to replicate: deliver the empty batch instead
            let r = verify::<G>(&[], &[], &[], action_from(case.action));
            st.evals += 1;
            st.fault("batch_empty");
            if let Err(c) = r {
                out.push(Violation::new("panic_in_verification", "empty", format!("case {}: {:?}", ci, c)));
                return out;
            }
            continue;
        }
        let t_ix = take_cyc(nt, ctxs.len());
        let s_ix = take_cyc(ns, sts.len());
        let p_ix = take_cyc(np, proofs.len());
        let ctxs2: Vec<&Context> = t_ix.iter().map(|i| ctxs[*i]).collect();
        let sts2: Vec<RangeStatement<G>> = s_ix.iter().map(|i| sts[*i].clone()).collect();
        let proofs2: Vec<RangeProof<G>> = p_ix.iter().map(|i| proofs[*i].clone()).collect();
        if nt != ns || ns != np {
            st.fault("batch_length_mismatch");
        }
        if ns == 0 {
            st.fault("batch_empty");
        }
        if ns > 256 {
            st.fault("batch_over_chunk_limit");
        }
        if ns > 256 && ns % 256 == 0 && nt == ns && np == ns {
            st.fault("batch_size_multiple_of_chunk_limit");
        }
        if ns > 1 {
            st.fault("batched");
        }
        let caps: std::collections::BTreeSet<usize> = sts2.iter().map(|s| s.generators.max_aggregation_factor()).collect();
        if caps.len() > 1 {
            st.fault("batch_mixed_capacity");
        }
        let bitsset: std::collections::BTreeSet<usize> = sts2.iter().map(|s| s.generators.bit_length()).collect();
        if bitsset.len() > 1 {
            st.fault("batch_mixed_bits");
        }
        let exts: std::collections::BTreeSet<usize> = sts2.iter().map(|s| s.generators.extension_degree() as usize).collect();
        if exts.len() > 1 {
            st.fault("batch_mixed_ext");
        }
        // --- verification: measured, guarded ---
        let mut trs: Vec<Transcript> = ctxs2.iter().map(|c| c.transcript()).collect();
        let before = alloc::window_start();
        free::reset_work();
        let a = action_from(case.action);
        let r = guarded(|| G::verify(&mut trs, &sts2, &proofs2, a));
        let used = alloc::window_read();
        let work = free::work();
        st.evals += 1;
        let verdict = match &r {
            Ok(Ok(_)) => "Ok",
            Ok(Err(_)) => "Err",
            Err(_) => "PANIC",
        };
        if verdict == "Ok" {
            st.probe("hostile_input_accepted_in_some_mode");
        }
        st.event(format!(
            "case{} verify t={} s={} p={} {} -> {}",
            ci,
            nt,
            ns,
            np,
            action_name(a),
            verdict
        ));
        if let Err(c) = &r {
            out.push(Violation::new(
                "panic_in_verification",
                format!("{:?}", c).chars().take(120).collect::<String>(),
                format!(
                    "case {}: verify_batch({} transcripts, {} statements, {} proofs, {}) panicked: {:?}",
                    ci,
                    nt,
                    ns,
                    np,
                    action_name(a),
                    c
                ),
            ));
            return out;
        }
        // allocation bound: linear in what was handed in
        let scale = 1 + ns.max(np).max(1) / sts.len().max(1);
        let units = (elements + sum_m + 16) * scale + table;
        let bound = 4096 * units + 64 * input_bytes * scale + (1 << 20);
        let peak = used.peak.saturating_sub(before.live);
        // Over the free module a point is a coefficient vector of up to 2*bits*m entries, so memory
        // per point is not constant: the allocation bound is evaluated on Ristretto only (and
        // the work bound on the free module only).
        if !G::IS_FREE && peak > bound {
            out.push(Violation::new(
                "allocation_not_linear_in_input",
                "alloc",
                format!(
                    "case {}: verify_batch allocated a peak of {} bytes for an input of {} bytes / {} proof elements / table {} (bound {})",
                    ci, peak, input_bytes, elements, table, bound
                ),
            ));
            return out;
        }
        if !G::IS_FREE && peak * 4 > bound * 3 {
            st.probe("allocation_above_three_quarters_of_bound");
        }
        if G::IS_FREE {
            let wbound = 8 * units as u64 + 64;
            if work > wbound {
                out.push(Violation::new(
                    "work_not_linear_in_input",
                    "work",
                    format!("case {}: {} scalar-point products for {} units (bound {})", ci, work, units, wbound),
                ));
                return out;
            }
        }
    }
    out
}

fn gen_st(rng: &mut SimRng, max_full: usize) -> StShape {
    let cfg = Config::generate(rng, max_full, 16);
    let mut s = StShape {
        bits: cfg.bits,
        m: cfg.m,
        cap: cfg.cap,
        ext: cfg.ext,
        promise_kind: rng.below(5) as u8,
        with_seed: rng.chance(1, 3) && cfg.m == 1,
        identity_commitment: rng.chance(1, 10),
        seed: rng.next_u64(),
        d_promises: 0,
    };
    // statement / parameter shapes the validating constructors must refuse (only used with
    // shaped proofs; see `generate`)
    if rng.chance(1, 10) {
        match rng.below(7) {
            0 => s.bits = *rng.pick(&[0usize, 3, 5, 128]),
            1 => s.cap = *rng.pick(&[0usize, 3, 6]),
            2 => s.m = *rng.pick(&[0usize, 3, 5]),
            3 => {
                s.cap = 1;
                s.m = 2;
            },
            4 => {
                s.m = 2;
                s.cap = 2;
                s.bits = s.bits.min(max_full / 2).max(1);
                s.with_seed = true;
            },
            5 => s.d_promises = *rng.pick(&[-1i32, 1]),
            _ => s.ext = *rng.pick(&[1usize, 6]),
        }
    }
    s
}

fn gen_shape(rng: &mut SimRng, st: &StShape, max_rounds_big: bool) -> ProofShape {
    let fit_rounds = (st.bits * st.m).trailing_zeros() as usize;
    let tag = match rng.below(8) {
        0 => *rng.pick(&[0u8, 7, 8, 255]),
        1 => rng.range(1, 6) as u8,
        _ => st.ext as u8,
    };
    let n_d1 = match rng.below(6) {
        0 => rng.usize_below(8),
        _ => (tag as usize).min(8),
    };
    let rounds = match rng.below(10) {
        0 => *rng.pick(&[0usize, 1, 2, 3, 4, 5, 6, 7, 8, 9]),
        1 => *rng.pick(&[31usize, 32, 33, 63, 64, 65]),
        2 if max_rounds_big => *rng.pick(&[200usize, 2000]),
        3 => fit_rounds + 1,
        4 => fit_rounds.saturating_sub(1),
        _ => fit_rounds,
    };
    let len_delta = match rng.below(8) {
        0 => *rng.pick(&[-1i32, 1, -31, 31, -32, 32, -33, 33]),
        _ => 0,
    };
    let class = match rng.below(8) {
        0 => ElemClass::Random,
        1 => ElemClass::Identity,
        2 => ElemClass::Undecodable,
        3 => ElemClass::NonCanonical,
        4 => ElemClass::AllOnes,
        _ => ElemClass::ValidPoint,
    };
    ProofShape { tag, n_d1, rounds, len_delta, class, seed: rng.next_u64() }
}

fn gen_fault_list(rng: &mut SimRng, ext: usize, m: usize) -> Vec<Fault> {
    let n = rng.range(1, 3) as usize;
    (0..n)
        .map(|_| match rng.below(16) {
            0 => Fault::FlipBit { elem: rng.usize_below(12), bit: rng.usize_below(256) },
            1 => Fault::ReplaceScalar { elem: rng.usize_below(ext), with: ScalarRepl::NonCanonical },
            2 => Fault::ReplacePoint {
                elem: ext + rng.usize_below(3),
                with: rng.pick(&[PointRepl::Identity, PointRepl::Undecodable, PointRepl::Random, PointRepl::Sibling]).clone(),
            },
            3 => Fault::DropRound,
            4 => Fault::AddRound,
            5 => Fault::RetagExtension { up: rng.chance(1, 2), repair: rng.chance(1, 2) },
            6 => Fault::Truncate(*rng.pick(&[1usize, 31, 32, 33, 64])),
            7 => Fault::Extend(*rng.pick(&[1usize, 31, 32, 33, 64])),
            8 => Fault::ReplaceCommitment { j: rng.usize_below(m), with: PointRepl::Identity },
            9 => Fault::Promise {
                j: rng.usize_below(m),
                with: rng.pick(&[PromiseRepl::Max, PromiseRepl::TwoPowBits, PromiseRepl::PlusOne]).clone(),
            },
            10 => Fault::Bits { double: rng.chance(1, 2) },
            11 => Fault::GeneratorH(GenPart::Both),
            12 => Fault::GeneratorG { k: rng.usize_below(ext), part: GenPart::PointOnly },
            13 => Fault::ReplacePoint { elem: ext + 5 + rng.usize_below(4), with: PointRepl::Undecodable },
            14 => Fault::ReplaceScalar { elem: ext + 3 + rng.usize_below(2), with: ScalarRepl::Zero },
            _ => Fault::ContextLabel,
        })
        .collect()
}

impl Check for C16 {
    type Scenario = Scenario;

    fn id(&self) -> &'static str {
        "C16"
    }

    fn level(&self) -> &'static str {
        "exploration"
    }

    fn rule(&self) -> String {
        "each seeded run delivers 24 hostile cases: proof shapes (extension tag 0..8/255, d1 count, rounds 0..9/31/32/33/63/64/65/200/2000 and fit+-1, length off by 1/31/32/33, element class valid/identity/undecodable/non-canonical/all-ones/random) x statement shapes (all configurations incl. capacity > m, promise 0/random/2^bits/u64::MAX, seed, identity commitments) x batch shapes (1..4 members of differing bits/ext/capacity, a member repeated across the 256 chunk limit, three sequences of unequal lengths, empty) x the three modes; honest proofs with 1-3 stacked channel faults; random byte strings of 0..4096 bytes; one evaluation = one guarded decode+construct step or one guarded verify_batch call; non-trivial = a batch-shape fault fired; distinct = distinct event-log hashes. Oracles: no panic (harness built with overflow checks), child process exits normally, allocation peak and (free module) scalar-point work linear in the input. Batch totals include exact multiples of the chunk limit (512; 768 and 1024 in the thorough tier).".into()
    }

    fn assumptions(&self) -> Vec<String> {
        vec![
            "statements are built through the validating constructors only (the statement struct has public fields; bypassing the constructors is outside the property)".into(),
            "the allocation bound is 4096 bytes per input unit (32-byte proof element, commitment, precomputed-table entry) + 64 x input bytes + 1 MiB: generous enough for dalek's NAF tables, tight enough to expose allocation exponential in the round count".into(),
            "wall-clock time is only a watchdog; 'time proportional to input' is decided by the deterministic work counter on the free module".into(),
        ]
    }

    fn components(&self) -> Value {
        super::components_native()
    }

    fn runs(&self, tier: Tier) -> u64 {
        match tier {
            Tier::Quick => 1_600,
            Tier::Thorough => 48_000,
        }
    }

    fn generate(&self, rng: &mut SimRng, tier: Tier, index: u64) -> Scenario {
        // Ristretto is the primary group here: dalek's backend assertions are the hazard
        let ristretto = index % 3 != 0;
        let max_full = match (ristretto, tier) {
            (true, Tier::Quick) => 128,
            (true, Tier::Thorough) => 1024,
            (false, _) => 512,
        };
        let n_cases = 24;
        let mut cases = Vec::new();
        for _ in 0..n_cases {
            let st0 = gen_st(rng, max_full);
            let n_members = *rng.pick(&[1usize, 1, 1, 2, 3, 4]);
            let mut members = Vec::new();
            for mi in 0..n_members {
                let mut st = if mi == 0 { st0.clone() } else { gen_st(rng, max_full) };
                if mi > 0 {
                    // mostly agree with the first member on bits / ext so that the batch gets
                    // past the consistency checks; sometimes disagree on purpose
                    if rng.chance(5, 6) {
                        st.bits = st0.bits;
                    }
                    if rng.chance(5, 6) {
                        st.ext = st0.ext;
                    }
                    if st.bits * st.m > max_full {
                        st.m = 1;
                        st.cap = st.cap.max(1);
                        st.with_seed = false;
                    }
                }
                let st_valid = st.bits.is_power_of_two()
                    && st.bits <= 64
                    && st.cap.is_power_of_two()
                    && st.m.is_power_of_two()
                    && st.m <= st.cap
                    && st.d_promises == 0
                    && !(st.with_seed && st.m > 1);
                let sel = if st_valid { rng.below(10) } else { 5 + rng.below(5) };
                let proof = match sel {
                    0 | 1 => ProofSrc::RandomBytes {
                        len: match rng.below(4) {
                            0 => rng.usize_below(40),
                            1 => 1 + 32 * rng.usize_below(40),
                            _ => rng.usize_below(4097),
                        },
                        seed: rng.next_u64(),
                    },
                    2 | 3 | 4 => {
                        let cfg = Config { bits: st.bits, m: st.m, cap: st.cap, ext: st.ext };
                        let mut wit = WitnessSpec::generate(rng, &cfg, true);
                        if cfg.m > 1 {
                            wit.seed_nonce = None;
                        }
                        ProofSrc::Faulted {
                            wit,
                            rng_seed: rng.next_u64(),
                            faults: if rng.chance(1, 5) { vec![] } else { gen_fault_list(rng, st.ext, st.m) },
                            fault_seed: rng.next_u64(),
                        }
                    },
                    _ => {
                        let big = rng.chance(1, 4);
                        ProofSrc::Shaped(gen_shape(rng, &st, big))
                    },
                };
                members.push(Member { st, proof, ctx: Context::generate(rng) });
            }
            let (dt, ds, dp) = match rng.below(10) {
                0 => *rng.pick(&[(1i32, 0i32, 0i32), (-1, 0, 0), (0, 1, 0), (0, -1, 0), (0, 0, 1), (0, 0, -1), (1, 0, 1), (-1, -1, 0)]),
                1 => (-(n_members as i32), -(n_members as i32), -(n_members as i32)),
                _ => (0, 0, 0),
            };
            let repeat_first = match rng.below(16) {
                // totals around the chunk limit, and exact multiples of it (512; 768 and 1024 in the thorough tier)
                0 => match rng.below(3) {
                    0 => (if tier == Tier::Quick { 512usize } else { *rng.pick(&[512usize, 512, 768, 1024]) }) - n_members,
                    1 => 256 - n_members,
                    _ => *rng.pick(&[254usize, 255, 256, 257, 300, 511, 512]),
                },
                1 => rng.usize_below(8),
                _ => 0,
            };
            cases.push(Case {
                members,
                d_transcripts: dt,
                d_statements: ds,
                d_proofs: dp,
                action: rng.usize_below(3),
                repeat_first,
            });
        }
        Scenario { group: if ristretto { "ristretto".into() } else { "free".into() }, cases }
    }

    fn execute(&self, sc: &Scenario, st: &mut RunStats) -> Vec<Violation> {
        by_group!(sc.group, run(sc, st))
    }

    fn shrink(&self, sc: &Scenario) -> Vec<Scenario> {
        let mut v = Vec::new();
        if sc.cases.len() > 1 {
            for i in (0..sc.cases.len()).rev() {
                let mut s = sc.clone();
                s.cases = vec![sc.cases[i].clone()];
                v.push(s);
            }
            return v;
        }
        let c = &sc.cases[0];
        if c.repeat_first > 0 {
            let mut s = sc.clone();
            s.cases[0].repeat_first = 0;
            v.push(s);
            let mut s = sc.clone();
            s.cases[0].repeat_first /= 2;
            v.push(s);
        }
        if c.members.len() > 1 {
            for i in 0..c.members.len() {
                let mut s = sc.clone();
                s.cases[0].members.remove(i);
                v.push(s);
            }
        }
        if c.d_transcripts != 0 || c.d_statements != 0 || c.d_proofs != 0 {
            let mut s = sc.clone();
            s.cases[0].d_transcripts = 0;
            s.cases[0].d_statements = 0;
            s.cases[0].d_proofs = 0;
            v.push(s);
        }
        for (mi, m) in c.members.iter().enumerate() {
            if let ProofSrc::Faulted { faults, .. } = &m.proof {
                if faults.len() > 1 {
                    for fi in 0..faults.len() {
                        let mut s = sc.clone();
                        if let ProofSrc::Faulted { faults, .. } = &mut s.cases[0].members[mi].proof {
                            faults.remove(fi);
                        }
                        v.push(s);
                    }
                }
            }
            if m.st.cap > m.st.m {
                let mut s = sc.clone();
                s.cases[0].members[mi].st.cap = m.st.m;
                v.push(s);
            }
        }
        if sc.group != "free" {
            let mut s = sc.clone();
            s.group = "free".into();
            v.push(s);
        }
        v
    }

    fn required_probes(&self, _tier: Tier) -> Vec<&'static str> {
        vec![
            "decoded_and_constructed",
            "refused_by_decoder",
            "refused_by_constructor",
            "batch_length_mismatch",
            "batch_empty",
            "batch_over_chunk_limit",
            "batch_size_multiple_of_chunk_limit",
            "batch_mixed_capacity",
            "batch_mixed_bits",
            "batch_mixed_ext",
            "batched",
        ]
    }
}

/// Scalar type is re-exported for the orchestrator's convenience.
#[allow(dead_code)]
pub type S = Scalar;
