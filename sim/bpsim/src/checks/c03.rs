//! C03 — batch verification ⇔ conjunction of singleton verifications, at any size and order.
//!
//! A simulated verifier node drains a message pool that the channel has duplicated and reordered;
//! the scheduler decides batch membership, size and order. Reference model: verify one at a time.

use curve25519_dalek::scalar::Scalar;
use serde::{Deserialize, Serialize};
use serde_json::Value;
use tari_bulletproofs_plus::{
    generators::pedersen_gens::PedersenGens,
    range_proof::{RangeProof, VerifyAction},
    range_statement::RangeStatement,
};

use crate::{
    by_group,
    faultrng::RngMode,
    group::Group,
    runner::{digest, Check, RunStats, Tier, Violation},
    simrng::SimRng,
    world::*,
};

#[derive(Clone, Debug, Serialize, Deserialize, PartialEq, Eq)]
pub enum Defect {
    /// response scalar d1[k] += 1
    D1Plus(usize),
    /// r1 += 1
    R1Plus,
    /// point A replaced by an unrelated decodable point
    APoint,
    /// delivered with the statement of a different witness (commitments differ)
    CrossStatement,
    /// verified under a different transcript context
    WrongContext,
    /// promise[0] raised by one (None -> Some(1))
    PromisePlus,
    /// malformed: the first L point replaced by bytes that do not decode
    UndecodableL,
    /// malformed: one round too many
    ExtraRound,
    /// extension tag raised by one with a spare scalar spliced in after d1 (decodes; disagrees with
    /// the statement's extension degree)
    ExtraD1,
}

#[derive(Clone, Debug, Serialize, Deserialize)]
pub struct PoolMember {
    pub m: usize,
    pub cap: usize,
    pub wit: WitnessSpec,
    pub ctx: Context,
    pub rng_seed: u64,
    pub defect: Option<Defect>,
    /// aggregated members only: the statement handed to the verifier carries a seed in its public
    /// `seed_nonce` field (the constructor would not build that, the field is public)
    #[serde(default)]
    pub owner_seed_on_aggregate: bool,
}

#[derive(Clone, Debug, Serialize, Deserialize, PartialEq, Eq)]
pub enum Odd {
    /// a member proved under a different bit length
    Bits,
    /// a member proved under a different extension degree
    Ext,
    /// a member whose Pedersen value generator H differs
    HBase,
    /// a member whose blinding generator G_k differs
    GBase(usize),
}

#[derive(Clone, Debug, Serialize, Deserialize)]
pub enum Op {
    /// verify these pool members (indices, repetition allowed) in this order
    Batch { members: Vec<usize>, action: usize },
    /// empty input
    Empty { action: usize },
    /// three sequences of lengths (transcripts, statements, proofs) that are not all equal
    Lengths { members: Vec<usize>, transcripts: usize, statements: usize, proofs: usize, action: usize },
    /// a batch of valid members plus one valid-on-its-own member that disagrees on `what`
    Inconsistent { members: Vec<usize>, what: Odd, position: usize, action: usize },
}

#[derive(Clone, Debug, Serialize, Deserialize)]
pub struct Scenario {
    pub group: String,
    pub bits: usize,
    pub ext: usize,
    pub pool: Vec<PoolMember>,
    pub ops: Vec<Op>,
}

pub struct C03;

struct Prepared<G: Group> {
    ctx: Context,
    statement: RangeStatement<G>,
    proof: RangeProof<G>,
    /// singleton verdict per action index: (ok, rendered)
    single: Vec<(bool, String, Option<Vec<Scalar>>)>,
}

fn prepare<G: Group>(sc: &Scenario, idx: usize, st: &mut RunStats, rng: &mut SimRng) -> Result<Prepared<G>, Violation> {
    let pm = &sc.pool[idx];
    let cfg = Config { bits: sc.bits, m: pm.m, cap: pm.cap, ext: sc.ext };
    let built = build::<G>(&cfg, &pm.wit);
    let (res, _) = prove_mode::<G>(&pm.ctx, &built.statement, &built.witness, &RngMode::Healthy(pm.rng_seed));
    let proof = match res {
        Ok(Ok(p)) => p,
        other => {
            return Err(Violation::new(
                "harness:pool_member_unprovable",
                format!("pool[{}]", idx),
                format!("honest pool member could not be proved: {:?}", other.map(|r| r.map(|_| ()))),
            ))
        },
    };
    let mut ctx = pm.ctx.clone();
    let mut statement = built.statement.clone();
    if pm.owner_seed_on_aggregate && pm.m >= 2 {
        statement.seed_nonce = Some(scalar_from_seed("c03forced", pm.rng_seed, 0));
        st.probe("aggregated_statement_carrying_a_seed");
    }
    let mut proof = proof;
    if let Some(d) = &pm.defect {
        st.fault(&format!("defect_{}", match d {
            Defect::D1Plus(_) => "d1",
            Defect::R1Plus => "r1",
            Defect::APoint => "a_point",
            Defect::CrossStatement => "cross_statement",
            Defect::WrongContext => "wrong_context",
            Defect::PromisePlus => "promise_plus",
            Defect::UndecodableL => "undecodable_l",
            Defect::ExtraRound => "extra_round",
            Defect::ExtraD1 => "extra_d1",
        }));
        match d {
            Defect::D1Plus(_) | Defect::R1Plus | Defect::APoint | Defect::UndecodableL | Defect::ExtraRound | Defect::ExtraD1 => {
                let mut parts = ProofParts::of::<G>(&proof).expect("harness parses library bytes");
                match d {
                    Defect::D1Plus(k) => {
                        let k = *k % parts.d1.len();
                        let s = ProofParts::scalar(&parts.d1[k]).unwrap() + Scalar::ONE;
                        parts.d1[k] = s.to_bytes();
                    },
                    Defect::R1Plus => {
                        let s = ProofParts::scalar(&parts.r1).unwrap() + Scalar::ONE;
                        parts.r1 = s.to_bytes();
                    },
                    Defect::UndecodableL => {
                        if let Some(first) = parts.lr.first_mut() {
                            first.0 = G::undecodable(rng);
                        }
                    },
                    Defect::ExtraRound => {
                        parts.lr.push((G::enc(&G::random_point(rng)), G::enc(&G::random_point(rng))));
                    },
                    Defect::ExtraD1 => {
                        if parts.ext_tag < 6 {
                            parts.ext_tag += 1;
                            parts.d1.push(rng.scalar().to_bytes());
                        } else {
                            parts.ext_tag -= 1;
                            parts.d1.pop();
                        }
                    },
                    _ => {
                        parts.a = G::enc(&G::random_point(rng));
                    },
                }
                match G::from_bytes(&parts.to_bytes()) {
                    Ok(p) => proof = p,
                    Err(_) => {
                        // zero-round proofs cannot be re-decoded (C15's territory): fall back to a
                        // statement-level defect
                        ctx = pm.ctx.other(rng);
                    },
                }
            },
            Defect::CrossStatement => {
                let mut w2 = pm.wit.clone();
                w2.blind_seed = w2.blind_seed.wrapping_add(1);
                statement = build::<G>(&cfg, &w2).statement.clone();
            },
            Defect::WrongContext => ctx = pm.ctx.other(rng),
            Defect::PromisePlus => {
                let mut promises = pm.wit.promises.clone();
                promises[0] = Some(promises[0].unwrap_or(0).wrapping_add(1));
                statement = G::statement(built.params.clone(), built.commitments.clone(), promises, pm.wit.seed())
                    .expect("statement");
            },
        }
    }
    let mut single = Vec::new();
    for a in ACTIONS {
        let r = verify_one::<G>(&ctx, &statement, &proof, a);
        st.evals += 1;
        let ok = is_ok(&r);
        if let Err(c) = &r {
            return Err(Violation::new(
                "singleton_verification_panicked",
                format!("pool[{}]", idx),
                format!("{:?}", c),
            ));
        }
        let mask = masks_of(&r).and_then(|m| m.into_iter().next().flatten());
        // sanity of the reference itself: a response scalar off by one or a replaced A cannot satisfy
        // the relation, so a verifying mode must refuse such a member on its own
        if ok
            && a != tari_bulletproofs_plus::range_proof::VerifyAction::RecoverOnly
            && matches!(pm.defect, Some(Defect::D1Plus(_)) | Some(Defect::R1Plus) | Some(Defect::APoint))
            && sc.bits * pm.m >= 2
        {
            return Err(Violation::new(
                "invalid_member_verifies_on_its_own",
                format!("{:?}", pm.defect),
                format!(
                    "pool[{}] (m={}, capacity {}, seed on aggregate: {}) carries defect {:?} yet verifies on its own in mode {}",
                    idx,
                    pm.m,
                    pm.cap,
                    pm.owner_seed_on_aggregate && pm.m >= 2,
                    pm.defect,
                    action_name(a)
                ),
            ));
        }
        single.push((ok, render_verify(&r), mask));
    }
    st.event(format!(
        "pool[{}] m={} cap={} defect={:?} single={}",
        idx,
        pm.m,
        pm.cap,
        pm.defect,
        digest(&[single.iter().map(|s| s.1.clone()).collect::<Vec<_>>().join("|").as_bytes()])
    ));
    Ok(Prepared { ctx, statement, proof, single })
}

fn odd_member<G: Group>(sc: &Scenario, what: &Odd, rng: &mut SimRng) -> Option<(Context, RangeStatement<G>, RangeProof<G>)> {
    let w = WitnessSpec { values: vec![1], promises: vec![None], blind_seed: rng.next_u64(), seed_nonce: None, zero_blind: vec![], same_as_prev: vec![], same_as_first: vec![], special_blind: None };
    let ctx = Context { label: 1, extra: None };
    let (bits, ext) = match what {
        Odd::Bits => (if sc.bits == 64 { 32 } else { sc.bits * 2 }, sc.ext),
        Odd::Ext => (sc.bits, if sc.ext == 6 { 5 } else { sc.ext + 1 }),
        _ => (sc.bits, sc.ext),
    };
    let cfg = Config { bits, m: 1, cap: 1, ext };
    let std_pc = G::pedersen(ext);
    let pc: PedersenGens<G> = match what {
        Odd::HBase => {
            let h = G::random_point(rng);
            PedersenGens {
                h_base_compressed: <G as tari_bulletproofs_plus::traits::Compressable>::compress(&h),
                h_base: h,
                ..std_pc
            }
        },
        Odd::GBase(k) => {
            let k = *k % ext;
            let mut g = std_pc.g_base_vec.clone();
            let mut gc = std_pc.g_base_compressed_vec.clone();
            g[k] = G::random_point(rng);
            gc[k] = <G as tari_bulletproofs_plus::traits::Compressable>::compress(&g[k]);
            PedersenGens { g_base_vec: g, g_base_compressed_vec: gc, ..std_pc }
        },
        _ => std_pc,
    };
    let params = custom_params::<G>(bits, 1, pc);
    let built = build_with_params::<G>(params, &cfg, &w);
    match prove_mode::<G>(&ctx, &built.statement, &built.witness, &RngMode::Healthy(7)).0 {
        Ok(Ok(p)) => {
            // must be valid on its own, otherwise the rejection would prove nothing
            if !is_ok(&verify_one::<G>(&ctx, &built.statement, &p, VerifyAction::VerifyOnly)) {
                return None;
            }
            Some((ctx, built.statement.clone(), p))
        },
        _ => None,
    }
}

fn run<G: Group>(sc: &Scenario, st: &mut RunStats) -> Vec<Violation> {
    let mut out = Vec::new();
    st.group(G::NAME);
    let mut aux = SimRng::new(0x0C03_0C03 ^ sc.pool.len() as u64);
    let mut pool: Vec<Prepared<G>> = Vec::new();
    for i in 0..sc.pool.len() {
        match prepare::<G>(sc, i, st, &mut aux) {
            Ok(p) => pool.push(p),
            Err(v) => {
                out.push(v);
                return out;
            },
        }
    }
    for (oi, op) in sc.ops.iter().enumerate() {
        match op {
            Op::Batch { members, action } => {
                let a = action_from(*action);
                let ai = *action % 3;
                let k = members.len();
                let ctxs: Vec<&Context> = members.iter().map(|i| &pool[*i].ctx).collect();
                let sts: Vec<RangeStatement<G>> = members.iter().map(|i| pool[*i].statement.clone()).collect();
                let proofs: Vec<RangeProof<G>> = members.iter().map(|i| pool[*i].proof.clone()).collect();
                let r = verify::<G>(&ctxs, &sts, &proofs, a);
                st.evals += 1;
                let expect_ok = members.iter().all(|i| pool[*i].single[ai].0);
                let n_invalid = members.iter().filter(|i| !pool[**i].single[ai].0).count();
                st.event(format!(
                    "op{} batch k={} action={} invalid={} -> {}",
                    oi,
                    k,
                    action_name(a),
                    n_invalid,
                    digest(&[render_verify(&r).as_bytes()])
                ));
                if k > 256 {
                    st.probe("chunk_boundary_crossed");
                    st.nontrivial = true;
                }
                if k > 512 {
                    st.probe("two_chunk_boundaries_crossed");
                }
                if k == 256 || k == 512 {
                    st.probe("exact_chunk_multiple");
                }
                if k == 257 || k == 513 {
                    st.probe("chunk_plus_one");
                }
                if k > 1 {
                    st.fault("batched");
                }
                if members.windows(2).any(|w| {
                    w[0] != w[1]
                        && sc.pool[w[0]].rng_seed == sc.pool[w[1]].rng_seed
                        && sc.pool[w[0]].defect.is_some() != sc.pool[w[1]].defect.is_some()
                }) {
                    st.probe("honest_message_next_to_defective_twin");
                }
                if n_invalid > 0 {
                    st.probe("batch_with_invalid_member");
                    if members.iter().position(|i| !pool[*i].single[ai].0).unwrap() >= 256 {
                        st.probe("first_invalid_member_beyond_first_chunk");
                    }
                }
                let mix_m = members.iter().map(|i| sc.pool[*i].m).collect::<std::collections::BTreeSet<_>>().len() > 1;
                let mix_c = members.iter().map(|i| sc.pool[*i].cap).collect::<std::collections::BTreeSet<_>>().len() > 1;
                if mix_m {
                    st.probe("mixed_aggregation_factors");
                }
                if mix_c {
                    st.probe("mixed_capacities");
                }
                let key = format!("batch k={} first_invalid>=256:{}", if k > 256 { ">256" } else { "<=256" }, n_invalid > 0);
                match &r {
                    Err(c) => {
                        out.push(Violation::new("batch_panicked", key, format!("op{}: {:?}", oi, c)));
                        return out;
                    },
                    Ok(Ok(masks)) => {
                        if !expect_ok {
                            out.push(Violation::new(
                                "batch_accepts_invalid_member",
                                key,
                                format!(
                                    "op{}: batch of {} in mode {} accepted although {} member(s) fail on their own (first at position {})",
                                    oi,
                                    k,
                                    action_name(a),
                                    n_invalid,
                                    members.iter().position(|i| !pool[*i].single[ai].0).unwrap()
                                ),
                            ));
                            return out;
                        }
                        if masks.len() != k {
                            out.push(Violation::new(
                                "batch_result_length",
                                key,
                                format!("op{}: batch of {} returned {} results", oi, k, masks.len()),
                            ));
                            return out;
                        }
                        for (pos, (mi, got)) in members.iter().zip(masks.iter()).enumerate() {
                            let want = &pool[*mi].single[ai].2;
                            let got = got.as_ref().map(|m| m.blindings().unwrap_or_default());
                            if &got != want {
                                out.push(Violation::new(
                                    "batch_result_misaligned",
                                    key.clone(),
                                    format!(
                                        "op{}: result {} of {} differs from the singleton result of pool[{}] (mode {})",
                                        oi,
                                        pos,
                                        k,
                                        mi,
                                        action_name(a)
                                    ),
                                ));
                                return out;
                            }
                            if want.is_some() {
                                st.probe("mask_alignment_checked");
                            }
                        }
                    },
                    Ok(Err(e)) => {
                        if expect_ok {
                            out.push(Violation::new(
                                "batch_rejects_valid_members",
                                key,
                                format!(
                                    "op{}: batch of {} in mode {} refused ({:?}) although every member verifies on its own",
                                    oi,
                                    k,
                                    action_name(a),
                                    e
                                ),
                            ));
                            return out;
                        }
                    },
                }
            },
            Op::Empty { action } => {
                let r = verify::<G>(&[], &[], &[], action_from(*action));
                st.evals += 1;
                st.fault("shape_empty");
                st.event(format!("op{} empty -> {}", oi, render_verify(&r)));
                if !is_err(&r) {
                    out.push(Violation::new("malformed_batch_not_refused", "empty", format!("empty batch: {}", render_verify(&r))));
                    return out;
                }
            },
            Op::Lengths { members, transcripts, statements, proofs, action } => {
                let take = |n: usize| -> Vec<usize> { (0..n).map(|i| members[i % members.len()]).collect() };
                let t = take(*transcripts);
                let s = take(*statements);
                let p = take(*proofs);
                let ctxs: Vec<&Context> = t.iter().map(|i| &pool[*i].ctx).collect();
                let sts: Vec<RangeStatement<G>> = s.iter().map(|i| pool[*i].statement.clone()).collect();
                let prs: Vec<RangeProof<G>> = p.iter().map(|i| pool[*i].proof.clone()).collect();
                let r = verify::<G>(&ctxs, &sts, &prs, action_from(*action));
                st.evals += 1;
                st.fault("shape_length_mismatch");
                if *transcripts.min(statements).min(proofs) >= 256 {
                    st.probe("length_mismatch_at_chunk_boundary");
                }
                st.event(format!("op{} lengths ({},{},{}) -> {}", oi, transcripts, statements, proofs, render_verify(&r)));
                if !is_err(&r) {
                    out.push(Violation::new(
                        "malformed_batch_not_refused",
                        format!("lengths t{}s{}p{}", (*transcripts).cmp(statements) as i8, 0, (*proofs).cmp(statements) as i8),
                        format!(
                            "sequences of lengths (transcripts {}, statements {}, proofs {}): {}",
                            transcripts,
                            statements,
                            proofs,
                            render_verify(&r)
                        ),
                    ));
                    return out;
                }
            },
            Op::Inconsistent { members, what, position, action } => {
                let Some((octx, ost, opr)) = odd_member::<G>(sc, what, &mut aux) else {
                    st.probe("odd_member_unavailable");
                    continue;
                };
                let mut ctxs: Vec<&Context> = members.iter().map(|i| &pool[*i].ctx).collect();
                let mut sts: Vec<RangeStatement<G>> = members.iter().map(|i| pool[*i].statement.clone()).collect();
                let mut prs: Vec<RangeProof<G>> = members.iter().map(|i| pool[*i].proof.clone()).collect();
                let pos = (*position).min(sts.len());
                ctxs.insert(pos, &octx);
                sts.insert(pos, ost);
                prs.insert(pos, opr);
                let r = verify::<G>(&ctxs, &sts, &prs, action_from(*action));
                st.evals += 1;
                st.fault(&format!("shape_inconsistent_{}", match what {
                    Odd::Bits => "bits",
                    Odd::Ext => "ext",
                    Odd::HBase => "h",
                    Odd::GBase(_) => "g",
                }));
                st.event(format!("op{} inconsistent {:?} at {} of {} -> {}", oi, what, pos, sts.len(), render_verify(&r)));
                if pos >= 256 {
                    st.probe("disagreeing_member_in_a_later_chunk");
                }
                if pos == members.len() && pos >= 8 && pos < 256 && (pos.is_power_of_two() || pos == 192) {
                    st.probe("disagreeing_member_alone_behind_a_power_of_two");
                }
                if !is_err(&r) {
                    out.push(Violation::new(
                        "malformed_batch_not_refused",
                        format!("inconsistent {:?}{}", what, if pos >= 256 { " in a later chunk" } else { "" }),
                        format!(
                            "batch of {} whose member {} disagrees on {:?} (mode {}): {}",
                            sts.len(),
                            pos,
                            what,
                            action_name(action_from(*action)),
                            render_verify(&r)
                        ),
                    ));
                    return out;
                }
            },
        }
    }
    out
}

fn gen_size(rng: &mut SimRng, big_ok: bool) -> usize {
    let r = rng.below(if big_ok { 16 } else { 8 });
    match r {
        0 => 1,
        1 => 2,
        2 => 3,
        3..=7 => rng.range(4, 40) as usize,
        8 => 255,
        9 => 256,
        10 => 257,
        11 => 300,
        12 => *rng.pick(&[511usize, 512, 513]),
        13 => rng.range(514, 1100) as usize,
        14 => rng.range(258, 400) as usize,
        _ => *rng.pick(&[256usize, 257, 512, 513]),
    }
}

impl Check for C03 {
    type Scenario = Scenario;

    fn id(&self) -> &'static str {
        "C03"
    }

    fn level(&self) -> &'static str {
        "exploration"
    }

    fn rule(&self) -> String {
        "each seeded run builds a pool of 6-24 valid and defective messages over one (bits, ext, generators) with mixed aggregation factors and capacities, obtains every member's singleton verdict and mask in each mode (reference model), then lets the seeded scheduler of a simulated verifier node form 10-40 batches (sizes 1..1100 with emphasis on 255/256/257/511/512/513, members drawn with repetition, invalid members placed at chosen positions incl. beyond the chunk limit, random permutation, swarm-chosen mode) plus malformed shapes and batches in which one member disagrees on bit length, extension degree or a generator - at any position, including alone at the start of a later chunk; non-trivial = at least one multi-member batch or malformed shape executed; distinct = distinct event-log hashes The disagreeing member also stands alone behind 8..192 agreeing members that start with the largest aggregate of the pool.".into()
    }

    fn assumptions(&self) -> Vec<String> {
        vec![
            "the reference verdict of a member is the library's own singleton verify_batch (refinement of the sequential model); correctness of singleton verification itself is C02's business".into(),
            "FreePoint is a faithful group; one run in five executes on real Ristretto".into(),
            "random batch weights do not cancel (probability 2^-252)".into(),
        ]
    }

    fn components(&self) -> Value {
        super::components_native()
    }

    fn runs(&self, tier: Tier) -> u64 {
        match tier {
            Tier::Quick => 320,
            Tier::Thorough => 12_000,
        }
    }

    fn generate(&self, rng: &mut SimRng, tier: Tier, index: u64) -> Scenario {
        let ristretto = index % 5 == 4;
        let bits = if ristretto { 4 } else { *rng.pick(&[2usize, 2, 4, 8, 1, 16]) };
        let ext = if rng.chance(1, 2) { 1 } else { rng.range(1, 6) as usize };
        let n_pool = rng.range(6, 24) as usize;
        let mut pool = Vec::new();
        let mut twins: Vec<(usize, usize)> = Vec::new();
        for i in 0..n_pool {
            let m = *rng.pick(&[1usize, 1, 1, 2, 4]);
            let cap = if rng.chance(1, 3) { m * *rng.pick(&[2usize, 4]) } else { m };
            let cfg = Config { bits, m, cap, ext };
            let mut wit = WitnessSpec::generate(rng, &cfg, true);
            if m == 1 && wit.seed_nonce.is_none() && rng.chance(1, 2) {
                wit.seed_nonce = Some(rng.next_u64());
            }
            let defect = if i >= 2 && rng.chance(1, 3) {
                Some(match rng.below(9) {
                    8 => Defect::ExtraD1,
                    6 => Defect::UndecodableL,
                    7 => Defect::ExtraRound,
                    0 => Defect::D1Plus(rng.usize_below(ext)),
                    1 => Defect::R1Plus,
                    2 => Defect::APoint,
                    3 => Defect::CrossStatement,
                    4 => Defect::WrongContext,
                    _ => Defect::PromisePlus,
                })
            } else {
                None
            };
            let ctx = Context::generate(rng);
            let rng_seed = rng.next_u64();
            // statement-level defects sometimes come with their honest twin (same proof, same
            // commitments, correct statement and context): duplicates the channel delivers next to
            // each other
            if matches!(defect, Some(Defect::WrongContext) | Some(Defect::PromisePlus)) && rng.chance(1, 2) {
                pool.push(PoolMember { m, cap, wit: wit.clone(), ctx: ctx.clone(), rng_seed, defect: None, owner_seed_on_aggregate: false });
                twins.push((pool.len() - 1, pool.len()));
            }
            pool.push(PoolMember { m, cap, wit, ctx, rng_seed, defect, owner_seed_on_aggregate: rng.chance(1, 3) });
        }
        let n_pool = pool.len();
        let valid: Vec<usize> = (0..n_pool).filter(|i| pool[*i].defect.is_none()).collect();
        let invalid: Vec<usize> = (0..n_pool).filter(|i| pool[*i].defect.is_some()).collect();
        let n_ops = rng.range(10, if tier == Tier::Quick { 24 } else { 40 }) as usize;
        let mut ops = Vec::new();
        let mut big_budget = if ristretto { 2 } else { 5 };
        for _ in 0..n_ops {
            let action = rng.usize_below(3);
            match rng.below(12) {
                0 => ops.push(Op::Empty { action }),
                1 if rng.chance(1, 3) => {
                    // length mismatches in which the shorter sequence is an exact multiple of the
                    // chunk size and the longer one spills into a further chunk
                    let (t, s_, p) = *rng.pick(&[
                        (257usize, 257usize, 256usize),
                        (256, 256, 257),
                        (257, 256, 256),
                        (256, 257, 257),
                        (513, 513, 512),
                        (512, 512, 600),
                        (300, 300, 256),
                        (256, 512, 512),
                    ]);
                    let members: Vec<usize> = (0..8).map(|_| *rng.pick(&valid)).collect();
                    ops.push(Op::Lengths { members, transcripts: t, statements: s_, proofs: p, action });
                },
                1 => {
                    let k = rng.range(1, 5) as usize;
                    let pat = *rng.pick(&[(0i64, 0i64, 1i64), (0, 0, -1), (1, 0, 0), (-1, 0, 0), (0, 1, 0), (0, -1, 0), (1, 0, 1), (-1, 0, -1)]);
                    let f = |d: i64| (k as i64 + 1 + d) as usize;
                    let members: Vec<usize> = (0..k + 2).map(|_| *rng.pick(&valid)).collect();
                    ops.push(Op::Lengths { members, transcripts: f(pat.0), statements: f(pat.1), proofs: f(pat.2), action });
                },
                2 => {
                    // mostly small batches; sometimes the disagreeing member sits alone in (or at the
                    // start of) a later chunk, behind 256 or 512 members that agree with each other
                    let (k, forced_pos) = match rng.below(6) {
                        0 if big_budget > 0 => {
                            big_budget -= 1;
                            (256usize, Some(256usize))
                        },
                        1 if big_budget > 0 => {
                            big_budget -= 1;
                            (*rng.pick(&[257usize, 300, 512]), Some(*rng.pick(&[256usize, 256, 0])))
                        },
                        // the disagreeing member alone behind a power-of-two number of agreeing members that
                        // start with the largest aggregate of the pool (any partition of the batch by powers
                        // of two, however it is derived, leaves it on its own)
                        2 => (*rng.pick(&[8usize, 16, 32, 64, 128, 192]), Some(usize::MAX)),
                        _ => (rng.range(1, 6) as usize, None),
                    };
                    let mut members: Vec<usize> = (0..k).map(|_| *rng.pick(&valid)).collect();
                    if forced_pos == Some(usize::MAX) {
                        members[0] = *valid.iter().max_by_key(|i| pool[**i].m).expect("a valid member");
                    }
                    let what = match rng.below(4) {
                        0 => Odd::Bits,
                        1 => Odd::Ext,
                        2 => Odd::HBase,
                        _ => Odd::GBase(rng.usize_below(ext)),
                    };
                    let position = forced_pos.map(|p| p.min(k)).unwrap_or_else(|| rng.usize_below(k + 1));
                    ops.push(Op::Inconsistent { members, what, position, action });
                },
                _ => {
                    let mut k = gen_size(rng, big_budget > 0);
                    if k > 250 {
                        big_budget -= 1;
                    }
                    if k > 1 && valid.is_empty() {
                        k = 1;
                    }
                    let mut members: Vec<usize> = (0..k).map(|_| *rng.pick(&valid)).collect();
                    let n_inv = if invalid.is_empty() { 0 } else { *rng.pick(&[0usize, 0, 1, 1, 2, 5]) };
                    for _ in 0..n_inv.min(k) {
                        let pos = match rng.below(6) {
                            0 => 0,
                            1 => k - 1,
                            2 => 255.min(k - 1),
                            3 => 256.min(k - 1),
                            4 if k > 257 => rng.range(256, k as u64 - 1) as usize,
                            5 if k > 513 => rng.range(512, k as u64 - 1) as usize,
                            _ => rng.usize_below(k),
                        };
                        members[pos] = *rng.pick(&invalid);
                    }
                    if rng.chance(1, 4) {
                        rng.shuffle(&mut members);
                    }
                    // an honest message immediately followed (or preceded) by its defective twin
                    if !twins.is_empty() && rng.chance(1, 4) {
                        let (h, d) = *rng.pick(&twins);
                        let pos = rng.usize_below(members.len() + 1);
                        if rng.chance(2, 3) {
                            members.insert(pos, d);
                            members.insert(pos, h);
                        } else {
                            members.insert(pos, h);
                            members.insert(pos, d);
                        }
                    }
                    ops.push(Op::Batch { members, action });
                },
            }
        }
        Scenario { group: if ristretto { "ristretto".into() } else { "free".into() }, bits, ext, pool, ops }
    }

    fn execute(&self, sc: &Scenario, st: &mut RunStats) -> Vec<Violation> {
        by_group!(sc.group, run(sc, st))
    }

    fn shrink(&self, sc: &Scenario) -> Vec<Scenario> {
        let mut v = Vec::new();
        // keep a single op
        if sc.ops.len() > 1 {
            for i in (0..sc.ops.len()).rev() {
                let mut s = sc.clone();
                s.ops = vec![sc.ops[i].clone()];
                v.push(s);
            }
        }
        if sc.group != "free" {
            let mut s = sc.clone();
            s.group = "free".into();
            v.push(s);
        }
        // shrink member lists of batch ops (ddmin-style chunks)
        for (oi, op) in sc.ops.iter().enumerate() {
            if let Op::Batch { members, action } = op {
                let n = members.len();
                let mut chunk = n / 2;
                while chunk >= 1 {
                    let mut start = 0;
                    while start < n {
                        let mut mm = members.clone();
                        let end = (start + chunk).min(n);
                        mm.drain(start..end);
                        if !mm.is_empty() {
                            let mut s = sc.clone();
                            s.ops[oi] = Op::Batch { members: mm, action: *action };
                            v.push(s);
                        }
                        start += chunk;
                    }
                    if chunk == 1 || v.len() > 64 {
                        break;
                    }
                    chunk /= 2;
                }
                // replace every member by the first pool member of the same validity class is
                // not attempted: identity of members matters for alignment violations
            }
        }
        // drop unused pool members (remap indices)
        let used: std::collections::BTreeSet<usize> = sc
            .ops
            .iter()
            .flat_map(|op| match op {
                Op::Batch { members, .. } | Op::Lengths { members, .. } | Op::Inconsistent { members, .. } => members.clone(),
                Op::Empty { .. } => vec![],
            })
            .collect();
        if used.len() < sc.pool.len() && !used.is_empty() {
            let map: std::collections::BTreeMap<usize, usize> = used.iter().enumerate().map(|(n, o)| (*o, n)).collect();
            let mut s = sc.clone();
            s.pool = used.iter().map(|i| sc.pool[*i].clone()).collect();
            for op in s.ops.iter_mut() {
                match op {
                    Op::Batch { members, .. } | Op::Lengths { members, .. } | Op::Inconsistent { members, .. } => {
                        members.iter_mut().for_each(|m| *m = map[m]);
                    },
                    Op::Empty { .. } => {},
                }
            }
            v.push(s);
        }
        if sc.ext > 1 {
            let mut s = sc.clone();
            s.ext = 1;
            for pm in s.pool.iter_mut() {
                if let Some(Defect::D1Plus(k)) = &mut pm.defect {
                    *k = 0;
                }
            }
            v.push(s);
        }
        v
    }

    fn required_probes(&self, _tier: Tier) -> Vec<&'static str> {
        vec![
            "chunk_boundary_crossed",
            "two_chunk_boundaries_crossed",
            "exact_chunk_multiple",
            "chunk_plus_one",
            "batch_with_invalid_member",
            "first_invalid_member_beyond_first_chunk",
            "mixed_aggregation_factors",
            "mixed_capacities",
            "mask_alignment_checked",
            "honest_message_next_to_defective_twin",
            "defect_undecodable_l",
            "defect_extra_d1",
            "aggregated_statement_carrying_a_seed",
            "defect_extra_round",
            "shape_empty",
            "shape_length_mismatch",
            "length_mismatch_at_chunk_boundary",
            "shape_inconsistent_bits",
            "shape_inconsistent_ext",
            "shape_inconsistent_h",
            "shape_inconsistent_g",
            "disagreeing_member_in_a_later_chunk",
            "disagreeing_member_alone_behind_a_power_of_two",
        ]
    }
}
