//! C18 — proving and verifying are pure, repeatable and thread-safe.
//!
//! Native part (operation-level scheduler): logical clients with scripts of self-contained
//! operations share a pool of parameter objects (clones share one `Arc` table); the same scripts
//! are executed under two different seeded interleavings, every operation is repeated once, some
//! prover operations crash (injected RNG panic, caught), and a sample of operations is executed
//! as the first library call of a fresh process. Oracle: the result digest of an operation is a
//! function of its descriptor only. Schedule part: Miri (real threads).

use std::collections::HashMap;

use serde::{Deserialize, Serialize};
use serde_json::Value;
use tari_bulletproofs_plus::{range_parameters::RangeParameters, range_proof::RangeProof, range_statement::RangeStatement};

use crate::{
    by_group,
    faultrng::RngMode,
    group::Group,
    runner::{digest, Check, RunStats, Tier, Violation},
    simrng::SimRng,
    world::*,
};

#[derive(Clone, Debug, Serialize, Deserialize, PartialEq)]
pub struct ProveDesc {
    pub cfg: Config,
    pub wit: WitnessSpec,
    pub ctx: Context,
    pub rng: RngMode,
}

#[derive(Clone, Debug, Serialize, Deserialize, PartialEq)]
pub enum Op {
    Construct { bits: usize, cap: usize, ext: usize },
    Prove(ProveDesc),
    /// prove every member (healthy streams), optionally corrupt one proof, verify as one batch;
    /// corrupt_kind: 0 = a response scalar changed (well-formed but invalid), 1 = an undecodable
    /// point in the first round (malformed), 2 = one extra round (malformed), 3..=7 = a near twin: one
    /// bit of one point encoding changed (3: A second half, 4: A first half, 5: B second half,
    /// 6: L[0] second half, 7: A1 first half) - decodable or not as it falls
    Verify {
        members: Vec<ProveDesc>,
        action: usize,
        corrupt: Option<usize>,
        #[serde(default)]
        corrupt_kind: u8,
    },
    /// prove and verify under caller-supplied Pedersen generators in which blinding generator `k` (or H,
    /// if `k` is None) is the identity element; refused or not, the outcome must not depend on what
    /// other calls happened before
    WithIdentityGenerator { desc: ProveDesc, k: Option<usize>, action: usize },
    /// a failed proving attempt (witness that does not open the commitment) on a transcript object,
    /// then the honest attempt on the SAME transcript object: the failed call must leave no trace
    ProveAfterFailedAttempt(ProveDesc),
    /// to_bytes -> from_bytes -> to_bytes
    Codec(ProveDesc),
    /// drop this client's parameter clones (the pool keeps its own)
    DropClones,
    /// prove and verify under caller-supplied, well-formed generators with an unusual relationship
    /// (world::related_pedersen), in a parameter object built for this call and dropped at its end: whatever
    /// the library remembers about an object must not outlive it
    UnderOwnGenerators { desc: ProveDesc, variant: u8, action: usize },
    /// a parameter construction that does not complete: kind 0 = an aggregation capacity of 2^63 (a power of
    /// two, so it passes the argument checks; the allocation request then panics), 1 = a capacity that is not
    /// a power of two, 2 = bit length 0. Refused or panicking, the call must leave nothing behind: every
    /// later call returns what it returns in a process where this one never happened
    FailingConstruction { bits: usize, ext: usize, kind: u8 },
}

/// Real threads under the cooperative scheduler (coop.rs): preemption inside library calls.
#[derive(Clone, Debug, Serialize, Deserialize)]
pub struct CoopSpec {
    pub group: String,
    /// the one parameter object all threads share clones of
    pub bits: usize,
    pub cap: usize,
    pub ext: usize,
    pub threads: Vec<Vec<Op>>,
    /// seed of the schedule and (out of 16) the probability of not switching at an interception point
    pub seed: u64,
    pub stay: u64,
}

#[derive(Clone, Debug, Serialize, Deserialize)]
pub struct Scenario {
    pub group: String,
    #[serde(default)]
    pub coop: Option<CoopSpec>,
    pub clients: Vec<Vec<Op>>,
    /// two interleavings: sequences of client indices (a client index appears once per op)
    pub schedule_a: Vec<usize>,
    pub schedule_b: Vec<usize>,
}

pub struct C18;

struct Env<G: Group> {
    pool: HashMap<(usize, usize, usize), RangeParameters<G>>,
    clones: Vec<Vec<RangeParameters<G>>>,
}

impl<G: Group> Env<G> {
    fn new(n: usize) -> Self {
        Env { pool: HashMap::new(), clones: (0..n).map(|_| Vec::new()).collect() }
    }

    /// shared parameter object: first user constructs, later users clone (one Arc table)
    /// Err: the library refused (or panicked in) a construction the harness knows to be valid; the text is the
    /// operation's result, so a refusal that depends on what happened earlier shows up in the comparison
    fn params(&mut self, client: usize, bits: usize, cap: usize, ext: usize) -> Result<RangeParameters<G>, String> {
        if !self.pool.contains_key(&(bits, cap, ext)) {
            match guarded(|| G::params(bits, cap, G::pedersen(ext))) {
                Ok(Ok(p)) => {
                    self.pool.insert((bits, cap, ext), p);
                },
                Ok(Err(e)) => return Err(format!("valid_construction_refused:{}", err_class(&e))),
                Err(_) => return Err("valid_construction_panicked".to_string()),
            }
        }
        let p = self.pool[&(bits, cap, ext)].clone();
        self.clones[client].push(p.clone());
        Ok(p)
    }
}

fn prove_desc<G: Group>(env: &mut Env<G>, client: usize, d: &ProveDesc) -> (String, Option<(RangeStatement<G>, RangeProof<G>)>) {
    let params = match env.params(client, d.cfg.bits, d.cfg.cap, d.cfg.ext) {
        Ok(p) => p,
        Err(e) => return (e, None),
    };
    let built = build_with_params::<G>(params, &d.cfg, &d.wit);
    // the caller's transcript is an argument too: what the call leaves in it is part of the result
    let mut t = d.ctx.transcript();
    let mut frng = crate::faultrng::FaultRng::new(d.rng.clone());
    let r = guarded(|| G::prove(&mut t, &built.statement, &built.witness, &mut frng));
    let mut after = [0u8; 16];
    t.challenge_bytes(b"bpsim state probe", &mut after);
    match r {
        Ok(Ok(p)) => (format!("proof:{}:t{}", digest(&[&G::to_bytes(&p)]), hex::encode(&after[..6])), Some((built.statement.clone(), p))),
        Ok(Err(e)) => (format!("err:{}", err_class(&e)), None),
        Err(c) => (format!("caught:{:?}", c), None),
    }
}

/// One operation; a valid parameter construction the library refuses becomes the operation's result (so a
/// refusal that depends on earlier calls differs from the baseline), any other harness panic propagates.
pub fn exec_op<G: Group>(env: &mut Env<G>, client: usize, op: &Op) -> String {
    match std::panic::catch_unwind(std::panic::AssertUnwindSafe(|| exec_op_inner(env, client, op))) {
        Ok(s) => s,
        Err(p) => match p.downcast_ref::<ValidConstructionRefused>() {
            Some(v) => format!("valid_construction_{}", v.0),
            None => std::panic::resume_unwind(p),
        },
    }
}

fn exec_op_inner<G: Group>(env: &mut Env<G>, client: usize, op: &Op) -> String {
    match op {
        Op::Construct { bits, cap, ext } => {
            let p = match env.params(client, *bits, *cap, *ext) {
                Ok(p) => p,
                Err(e) => return e,
            };
            let mut bytes = Vec::new();
            for g in p.gi_base_iter().take(4).chain(p.hi_base_iter().take(4)).chain(p.g_bases().iter()) {
                bytes.extend_from_slice(&G::enc(g));
            }
            bytes.extend_from_slice(&G::enc(p.h_base()));
            format!("gens:{}", digest(&[&bytes]))
        },
        Op::Prove(d) => {
            // the result is a function of the arguments and of the bytes the generator serves - not of what
            // kind of object serves them: once more through a zero-sized handle onto an equal generator
            let direct = prove_desc(env, client, d).0;
            let handled = crate::faultrng::with_handle(true, || prove_desc(env, client, d).0);
            if direct == handled {
                direct
            } else {
                format!("{}|rng_shape_independent:false ({})", direct, handled)
            }
        },
        Op::WithIdentityGenerator { desc: d, k, action } => {
            use curve25519_dalek::traits::Identity;
            use tari_bulletproofs_plus::traits::Compressable;
            // the statement under generators containing the identity comes FIRST: in a fresh process this
            // is the first use of that extension degree
            let mut pc = G::pedersen(d.cfg.ext);
            match k {
                Some(k) => {
                    let k = *k % d.cfg.ext;
                    pc.g_base_vec[k] = G::identity();
                    pc.g_base_compressed_vec[k] = G::identity().compress();
                },
                None => {
                    pc.h_base = G::identity();
                    pc.h_base_compressed = G::identity().compress();
                },
            }
            let params = custom_params::<G>(d.cfg.bits, d.cfg.cap, pc);
            let built = build_with_params::<G>(params, &d.cfg, &d.wit);
            let (pr, _) = prove_mode::<G>(&d.ctx, &built.statement, &built.witness, &d.rng);
            let p_out = match &pr {
                Ok(Ok(p)) => format!("proof:{}", digest(&[&G::to_bytes(p)])),
                Ok(Err(e)) => format!("err:{}", err_class(e)),
                Err(c) => format!("caught:{:?}", c),
            };
            // an honest proof under the standard generators (through the shared pool), verified under
            // the statement with the identity generator
            let honest = prove_desc(env, client, &ProveDesc { rng: RngMode::Healthy(5), ..d.clone() }).1;
            let v_out = match honest {
                Some((_, hp)) => {
                    let r = verify_one::<G>(&d.ctx, &built.statement, &hp, action_from(*action));
                    digest(&[render_verify(&r).as_bytes()])
                },
                None => "n/a".to_string(),
            };
            format!("identity-generator:{}|verify:{}", p_out, v_out)
        },
        Op::UnderOwnGenerators { desc: d, variant, action } => {
            let pc = related_pedersen::<G>(d.cfg.ext, (*variant).max(1), d.cfg.bits).expect("variant >= 1");
            let params = custom_params::<G>(d.cfg.bits, d.cfg.cap, pc);
            let built = build_with_params::<G>(params, &d.cfg, &d.wit);
            let (pr, _) = prove_mode::<G>(&d.ctx, &built.statement, &built.witness, &d.rng);
            match pr {
                Ok(Ok(p)) => {
                    let r = verify_one::<G>(&d.ctx, &built.statement, &p, action_from(*action));
                    format!("own-generators:proof:{}|verify:{}", digest(&[&G::to_bytes(&p)]), digest(&[render_verify(&r).as_bytes()]))
                },
                Ok(Err(e)) => format!("own-generators:err:{}", err_class(&e)),
                Err(c) => format!("own-generators:caught:{:?}", c),
            }
        },
        Op::ProveAfterFailedAttempt(d) => {
            let params = match env.params(client, d.cfg.bits, d.cfg.cap, d.cfg.ext) {
                Ok(p) => p,
                Err(e) => return e,
            };
            let built = build_with_params::<G>(params.clone(), &d.cfg, &d.wit);
            // a witness whose first blinding is off by one: does not open the commitment
            let mut wrong = d.wit.clone();
            wrong.blind_seed = wrong.blind_seed.wrapping_add(1);
            wrong.zero_blind.clear();
            wrong.special_blind = None;
            wrong.same_as_prev.clear();
            wrong.same_as_first.clear();
            let bad = build_with_params::<G>(params, &d.cfg, &wrong);
            let mut t = d.ctx.transcript();
            let mut r1 = crate::faultrng::FaultRng::new(RngMode::Healthy(1));
            let first = guarded(|| G::prove(&mut t, &built.statement, &bad.witness, &mut r1));
            let mut r2 = crate::faultrng::FaultRng::new(d.rng.clone());
            let second = guarded(|| G::prove(&mut t, &built.statement, &built.witness, &mut r2));
            let f = match first {
                Ok(Ok(_)) => "first:ok",
                Ok(Err(_)) => "first:err",
                Err(_) => "first:caught",
            };
            // what the honest call gives on a transcript object no failed call has touched
            let mut r3 = crate::faultrng::FaultRng::new(d.rng.clone());
            let mut t_fresh = d.ctx.transcript();
            let plain = guarded(|| G::prove(&mut t_fresh, &built.statement, &built.witness, &mut r3));
            match second {
                Ok(Ok(p)) => {
                    let same = matches!(&plain, Ok(Ok(q)) if G::to_bytes(q) == G::to_bytes(&p));
                    format!("{}|proof:{}|retry_equals_plain:{}", f, digest(&[&G::to_bytes(&p)]), same || f != "first:err")
                },
                Ok(Err(e)) => format!("{}|err:{}", f, err_class(&e)),
                Err(c) => format!("{}|caught:{:?}", f, c),
            }
        },
        Op::Verify { members, action, corrupt, corrupt_kind } => {
            let mut sts = Vec::new();
            let mut proofs = Vec::new();
            let mut ctxs: Vec<&Context> = Vec::new();
            for (i, d) in members.iter().enumerate() {
                match prove_desc(env, client, d).1 {
                    Some((s, mut p)) => {
                        if *corrupt == Some(i) {
                            if let Some(mut parts) = ProofParts::of::<G>(&p) {
                                match *corrupt_kind {
                                    1 if !parts.lr.is_empty() => {
                                        let mut r = crate::simrng::SimRng::new(0xC18);
                                        parts.lr[0].0 = G::undecodable(&mut r);
                                    },
                                    2 => {
                                        let mut r = crate::simrng::SimRng::new(0xC18);
                                        parts.lr.push((G::enc(&G::random_point(&mut r)), G::enc(&G::random_point(&mut r))));
                                    },
                                    3 => parts.a[21] ^= 4,
                                    4 => parts.a[5] ^= 4,
                                    5 => parts.b[27] ^= 16,
                                    6 if !parts.lr.is_empty() => parts.lr[0].0[18] ^= 2,
                                    7 => parts.a1[3] ^= 32,
                                    8 => {
                                        // announced extension degree one too large, with a spare scalar
                                        if parts.ext_tag < 6 {
                                            parts.ext_tag += 1;
                                            parts.d1.push(curve25519_dalek::scalar::Scalar::from(7u64).to_bytes());
                                        }
                                    },
                                    _ => parts.r1[0] ^= 1,
                                }
                                if let Ok(q) = G::from_bytes(&parts.to_bytes()) {
                                    p = q;
                                }
                            }
                        }
                        sts.push(s);
                        proofs.push(p);
                        ctxs.push(&d.ctx);
                    },
                    None => return "verify:member-unprovable".to_string(),
                }
            }
            let mut trs: Vec<merlin::Transcript> = ctxs.iter().map(|c| c.transcript()).collect();
            let a = action_from(*action);
            let r = guarded(|| G::verify(&mut trs, &sts, &proofs, a));
            // the callers' transcripts are arguments too: their final states belong to the result
            let mut states = Vec::new();
            for t in trs.iter_mut() {
                let mut after = [0u8; 8];
                t.challenge_bytes(b"bpsim state probe", &mut after);
                states.extend_from_slice(&after);
            }
            // the same call with every statement rebuilt over its own, separately constructed parameter
            // object (equal in value, nothing shared): whether arguments share memory is not an argument
            let budget: usize = members.iter().map(|d| d.cfg.bits * d.cfg.cap).sum();
            let mut independent = true;
            if G::NAME == "free" || budget <= 128 {
                let sts2: Vec<RangeStatement<G>> = members
                    .iter()
                    .map(|d| {
                        let fresh = valid_params::<G>(d.cfg.bits, d.cfg.cap, G::pedersen(d.cfg.ext));
                        build_with_params::<G>(fresh, &d.cfg, &d.wit).statement
                    })
                    .collect();
                let mut trs2: Vec<merlin::Transcript> = ctxs.iter().map(|c| c.transcript()).collect();
                let r2 = guarded(|| G::verify(&mut trs2, &sts2, &proofs, a));
                independent = render_verify(&r2) == render_verify(&r);
            }
            format!("verify:{}:t{}|sharing_independent:{}", digest(&[render_verify(&r).as_bytes()]), digest(&[&states]), independent)
        },
        Op::Codec(d) => match prove_desc(env, client, d).1 {
            Some((_, p)) => {
                let b = G::to_bytes(&p);
                match G::from_bytes(&b) {
                    Ok(q) => format!("codec:{}:{}", G::to_bytes(&q) == b, digest(&[&b])),
                    Err(e) => format!("codec:err:{}", err_class(&e)),
                }
            },
            None => "codec:unprovable".to_string(),
        },
        Op::DropClones => {
            env.clones[client].clear();
            "dropped".to_string()
        },
        Op::FailingConstruction { bits, ext, kind } => {
            let (b, c) = match kind {
                0 => (*bits, 1usize << 63),
                1 => (*bits, 3),
                _ => (0, 1),
            };
            match guarded(|| G::params(b, c, G::pedersen(*ext))) {
                Ok(Ok(_)) => "construction:ok".to_string(),
                Ok(Err(e)) => format!("construction:err:{}", err_class(&e)),
                Err(_) => "construction:panicked".to_string(),
            }
        },
    }
}

fn run_schedule<G: Group>(sc: &Scenario, schedule: &[usize], repeat: bool, st: &mut RunStats, tag: &str) -> Vec<Vec<String>> {
    let mut env = Env::<G>::new(sc.clients.len());
    let mut next = vec![0usize; sc.clients.len()];
    let mut results: Vec<Vec<String>> = sc.clients.iter().map(|c| vec![String::new(); c.len()]).collect();
    for (step, c) in schedule.iter().enumerate() {
        let k = next[*c];
        if k >= sc.clients[*c].len() {
            continue;
        }
        next[*c] += 1;
        let op = &sc.clients[*c][k];
        let d = exec_op(&mut env, *c, op);
        st.evals += 1;
        st.event(format!("{} step{} client{} op{} -> {}", tag, step, c, k, d));
        if d.starts_with("caught:InjectedRng") {
            st.fault("injected_rng_panic_caught");
        }
        if repeat {
            let d2 = exec_op(&mut env, *c, op);
            st.evals += 1;
            if d2 != d {
                results[*c][k] = format!("{} / repeat: {}", d, d2);
                continue;
            }
        }
        results[*c][k] = d;
    }
    results
}

fn run_coop<G: Group>(cs: &CoopSpec, st: &mut RunStats) -> Vec<Violation>
where
    tari_bulletproofs_plus::range_parameters::RangeParameters<G>: Send + Sync,
{
    let mut out = Vec::new();
    // sequential reference: every operation alone, on fresh parameter objects
    let reference: Vec<Vec<String>> = cs
        .threads
        .iter()
        .map(|ops| {
            ops.iter()
                .map(|op| {
                    crate::free::reset_run_state();
                    let mut env = Env::<G>::new(1);
                    exec_op(&mut env, 0, op)
                })
                .collect()
        })
        .collect();
    let shared = match G::params(cs.bits, cs.cap, G::pedersen(cs.ext)) {
        Ok(p) => p,
        Err(e) => {
            out.push(Violation::new("harness:params_refused", "setup", format!("{:?}", e)));
            return out;
        },
    };
    let jobs: Vec<Box<dyn FnOnce() -> Vec<String> + Send + '_>> = cs
        .threads
        .iter()
        .map(|ops| {
            let p = shared.clone();
            let key = (cs.bits, cs.cap, cs.ext);
            Box::new(move || {
                let mut env = Env::<G>::new(1);
                env.pool.insert(key, p);
                ops.iter().map(|op| exec_op(&mut env, 0, op)).collect::<Vec<String>>()
            }) as Box<dyn FnOnce() -> Vec<String> + Send + '_>
        })
        .collect();
    let (results, rep) = crate::coop::run_threads(cs.seed, cs.stay, jobs);
    st.fault("preemption_inside_library_calls");
    st.probe_n("coop_interception_points", rep.points);
    st.probe_n("coop_thread_switches", rep.switches);
    st.evals += cs.threads.iter().map(|t| t.len() as u64).sum::<u64>();
    st.event(format!(
        "coop group={} threads={} points={} switches={} trace={:016x}",
        cs.group,
        cs.threads.len(),
        rep.points,
        rep.switches,
        rep.trace_hash
    ));
    for (t, r) in results.iter().enumerate() {
        match r {
            Err(msg) => {
                out.push(Violation::new(
                    "concurrent_call_panicked",
                    "coop",
                    format!(
                        "{} threads sharing one parameter object (bits {}, capacity {}, ext {}), schedule seed {:x}: thread {} panicked outside the library's error handling: {}",
                        cs.threads.len(), cs.bits, cs.cap, cs.ext, cs.seed, t, msg
                    ),
                ));
                return out;
            },
            Ok(digests) => {
                for (k, d) in digests.iter().enumerate() {
                    if *d != reference[t][k] {
                        out.push(Violation::new(
                            "concurrent_result_differs_from_sequential",
                            op_kind(&cs.threads[t][k]),
                            format!(
                                "{} threads sharing one parameter object (bits {}, capacity {}, ext {}), schedule seed {:x}: thread {} op {} ({}) gives {} when interleaved with the other threads' calls but {} when executed alone",
                                cs.threads.len(), cs.bits, cs.cap, cs.ext, cs.seed, t, k, short(&cs.threads[t][k]), d, reference[t][k]
                            ),
                        ));
                        return out;
                    }
                }
            },
        }
    }
    out
}

fn run<G: Group>(sc: &Scenario, st: &mut RunStats) -> Vec<Violation> {
    let mut out = Vec::new();
    st.group(G::NAME);
    let ra = run_schedule::<G>(sc, &sc.schedule_a, false, st, "A");
    let rb = run_schedule::<G>(sc, &sc.schedule_b, true, st, "B");
    st.fault("second_interleaving");
    for c in 0..sc.clients.len() {
        for k in 0..sc.clients[c].len() {
            if ra[c][k].contains("retry_equals_plain:false") {
                out.push(Violation::new(
                    "failed_call_left_state_behind",
                    "prove",
                    format!(
                        "client {} op {} ({}): after a proving attempt that returned an error, the honest attempt on the same transcript object gives a different proof than on an untouched transcript — the failed call left state behind in the caller's transcript",
                        c,
                        k,
                        short(&sc.clients[c][k])
                    ),
                ));
                return out;
            }
            if ra[c][k].contains("sharing_independent:false") || rb[c][k].contains("sharing_independent:false") {
                out.push(Violation::new(
                    "result_depends_on_object_sharing",
                    "verify",
                    format!(
                        "client {} op {} ({}): the batch gives another result when its statements hold clones of one parameter object than when each holds its own, equal, separately constructed one",
                        c,
                        k,
                        short(&sc.clients[c][k])
                    ),
                ));
                return out;
            }
            if ra[c][k].contains("rng_shape_independent:false") || rb[c][k].contains("rng_shape_independent:false") {
                out.push(Violation::new(
                    "result_depends_on_the_kind_of_rng_object",
                    "prove",
                    format!(
                        "client {} op {} ({}): the prover gives another result when the same byte stream reaches it through a zero-sized handle than when it holds the generator itself: {}",
                        c,
                        k,
                        short(&sc.clients[c][k]),
                        ra[c][k]
                    ),
                ));
                return out;
            }
            if rb[c][k].contains(" / repeat: ") {
                out.push(Violation::new(
                    "repeating_a_call_changes_its_result",
                    op_kind(&sc.clients[c][k]),
                    format!("client {} op {} ({:?}) repeated immediately gave a different result: {}", c, k, short(&sc.clients[c][k]), rb[c][k]),
                ));
                return out;
            }
            if ra[c][k] != rb[c][k] {
                out.push(Violation::new(
                    "result_depends_on_call_history",
                    op_kind(&sc.clients[c][k]),
                    format!(
                        "client {} op {} ({:?}): {} under interleaving A but {} under interleaving B — the call observed state left behind by other calls",
                        c,
                        k,
                        short(&sc.clients[c][k]),
                        ra[c][k],
                        rb[c][k]
                    ),
                ));
                return out;
            }
        }
    }
    out
}

fn op_kind(op: &Op) -> String {
    match op {
        Op::Construct { .. } => "construct",
        Op::Prove(_) => "prove",
        Op::Verify { .. } => "verify",
        Op::ProveAfterFailedAttempt(_) => "prove_after_failed_attempt",
        Op::WithIdentityGenerator { .. } => "with_identity_generator",
        Op::Codec(_) => "codec",
        Op::DropClones => "drop",
        Op::FailingConstruction { .. } => "failing_construction",
        Op::UnderOwnGenerators { .. } => "under_own_generators",
    }
    .to_string()
}

fn short(op: &Op) -> String {
    let s = format!("{:?}", op);
    s.chars().take(160).collect()
}

/// `bpsim single-op <group> <op json>`: execute exactly one operation as the first library call of
/// this (fresh) process and print its result digest.
pub fn single_op_cli(group: &str, op_json: &str) -> i32 {
    let op: Op = match serde_json::from_str(op_json) {
        Ok(o) => o,
        Err(e) => {
            eprintln!("bad op: {}", e);
            return 2;
        },
    };
    fn go<G: Group>(op: &Op) -> String {
        let mut env = Env::<G>::new(1);
        exec_op(&mut env, 0, op)
    }
    let d = by_group!(group, go(&op));
    println!("DIGEST {}", d);
    0
}

/// in-process digest of one op in a fresh environment (what the fresh process must reproduce)
pub fn in_process_digest(group: &str, op: &Op) -> String {
    fn go<G: Group>(op: &Op) -> String {
        let mut env = Env::<G>::new(1);
        exec_op(&mut env, 0, op)
    }
    by_group!(group, go(op))
}

fn gen_prove(rng: &mut SimRng, max_full: usize, crash: bool) -> ProveDesc {
    let cfg = Config::generate(rng, max_full, 4);
    let wit = WitnessSpec::generate(rng, &cfg, true);
    let rngm = if crash { RngMode::PanicAt(rng.range(1, 3 + cfg.rounds() as u64) as usize, rng.next_u64()) } else { RngMode::Healthy(rng.next_u64()) };
    ProveDesc { cfg, wit, ctx: Context::generate(rng), rng: rngm }
}

impl Check for C18 {
    type Scenario = Scenario;

    fn id(&self) -> &'static str {
        "C18"
    }

    fn level(&self) -> &'static str {
        "exploration"
    }

    fn rule(&self) -> String {
        "native part: each seeded run has 3-6 logical clients with scripts of 5-30 self-contained operations (construct parameters, prove with a per-operation seeded RNG, verify singly and in batches of 1-4 with optional corruption, encode/decode, drop parameter clones) over a shared pool of parameter objects (clones share one Arc table); 10% of prover operations crash through an injected RNG panic (caught); the same scripts run under two different seeded interleavings and every operation is repeated once; a sample of operations also runs as the first library call of a fresh process, among them pairs of a batch and its near twin (one bit of one point encoding changed) verified one after the other in this process; oracle: an operation's result digest (proof bytes, Ok/Err class, masks) is a function of its descriptor only. Schedule part: Miri interprets 2-3 real threads (racing first use of the statics, sharing one precomputed table, thorough: proving and verifying concurrently) under seeded schedules with its data-race detector on and compares every thread's results with a single-threaded reference. One evaluation = one operation executed or one Miri execution; distinct = distinct event-log hashes + distinct schedule signatures. Object identity is not an argument: every verify operation is repeated with each statement rebuilt over its own separately constructed parameter object, every prove operation is repeated with the same byte stream served through a zero-sized handle, and pairs of operations under caller-supplied generators in parameter objects that live for one call only are compared with a fresh process.".into()
    }

    fn assumptions(&self) -> Vec<String> {
        vec![
            "library calls are atomic at the operation level in the native part (single OS thread per run), which is exactly the set of observable interleavings outside the two once-cells and the Arc tables; those are covered by the Miri part".into(),
            "Miri explores preemptions at basic-block granularity; full-protocol schedules are few (minutes per seed) and run in the thorough tier only".into(),
        ]
    }

    fn components(&self) -> Value {
        let mut c = super::components_native();
        c["once_cell, std::sync::Arc, atomics"] = serde_json::json!("real, interpreted by Miri in the schedule phase");
        c["OS thread scheduler"] = serde_json::json!("Miri's seeded scheduler in the schedule phase; operation-level seeded scheduler (one OS thread) in the native phase");
        c
    }

    fn runs(&self, tier: Tier) -> u64 {
        match tier {
            Tier::Quick => 240,
            Tier::Thorough => 12_000,
        }
    }

    fn generate(&self, rng: &mut SimRng, tier: Tier, index: u64) -> Scenario {
        let free = index % 3 == 0;
        let max_full = if free { 64 } else if tier == Tier::Quick { 16 } else { 64 };
        // a long warm-up now and then: two clients, several hundred cheap operations each
        let long = index % 48 == 5;
        let max_full = if long { 4 } else { max_full };
        let n_clients = if long { 2 } else { rng.range(3, 6) as usize };
        let max_ops = if long { 340 } else if tier == Tier::Quick { 14 } else { 30 };
        let mut clients = Vec::new();
        // a few descriptors shared between clients so that identical calls occur in different histories
        let shared: Vec<ProveDesc> = (0..3).map(|_| gen_prove(rng, max_full, false)).collect();
        for _ in 0..n_clients {
            let n_ops = if long { rng.range(300, max_ops) as usize } else { rng.range(5, max_ops) as usize };
            let mut ops = Vec::new();
            for _ in 0..n_ops {
                let pd = |rng: &mut SimRng| -> ProveDesc {
                    if rng.chance(1, 3) {
                        rng.pick(&shared).clone()
                    } else {
                        gen_prove(rng, max_full, false)
                    }
                };
                let mut before: Option<Op> = None;
                let op = match rng.below(12) {
                    0 => {
                        let c = Config::generate(rng, max_full, 4);
                        // (no draw: the scenario stream of earlier harness versions is kept)
                        if (c.bits + c.cap + c.ext) % 3 == 0 {
                            before = Some(Op::FailingConstruction { bits: c.bits, ext: c.ext, kind: (c.ext % 3) as u8 });
                        }
                        Op::Construct { bits: c.bits, cap: c.cap, ext: c.ext }
                    },
                    1 => {
                        if rng.chance(1, 3) {
                            Op::DropClones
                        } else if rng.chance(1, 2) {
                            // two calls in a row over the same shape under different own generators
                            let d = gen_prove(rng, max_full, false);
                            let (va, vb) = (1 + rng.below(5) as u8, 1 + rng.below(5) as u8);
                            let vb = if vb == va { 1 + (va % 5) } else { vb };
                            let action = rng.usize_below(3);
                            let mut d2 = d.clone();
                            d2.wit = WitnessSpec::generate(rng, &d.cfg, true);
                            before = Some(Op::UnderOwnGenerators { desc: d, variant: va, action });
                            Op::UnderOwnGenerators { desc: d2, variant: vb, action }
                        } else {
                            let d = gen_prove(rng, max_full, false);
                            let k = if rng.chance(1, 4) { None } else { Some(rng.usize_below(d.cfg.ext)) };
                            Op::WithIdentityGenerator { desc: d, k, action: rng.usize_below(3) }
                        }
                    },
                    2 | 3 | 4 => Op::Prove(pd(rng)),
                    5 => Op::Prove(gen_prove(rng, max_full, true)),
                    6 => {
                        if rng.chance(1, 2) {
                            Op::Codec(pd(rng))
                        } else {
                            Op::ProveAfterFailedAttempt(pd(rng))
                        }
                    },
                    _ => {
                        let first = pd(rng);
                        let k = rng.range(1, 4) as usize;
                        let mut members = vec![first.clone()];
                        for _ in 1..k {
                            // same bits / ext so that the batch is consistent
                            let mut d = gen_prove(rng, max_full, false);
                            d.cfg.bits = first.cfg.bits;
                            d.cfg.ext = first.cfg.ext;
                            if d.cfg.bits * d.cfg.m > max_full {
                                d.cfg.m = 1;
                                d.cfg.cap = 1;
                            }
                            d.wit = WitnessSpec::generate(rng, &d.cfg, true);
                            members.push(d);
                        }
                        let corrupt = if rng.chance(1, 3) { Some(rng.usize_below(k)) } else { None };
                        let corrupt_kind = rng.below(9) as u8;
                        let action = rng.usize_below(3);
                        if corrupt.is_some() && corrupt_kind >= 3 {
                            // a near twin and the genuine batch next to each other, in either order
                            let forged = Op::Verify { members: members.clone(), action, corrupt, corrupt_kind };
                            let genuine = Op::Verify { members, action, corrupt: None, corrupt_kind: 0 };
                            if corrupt_kind % 2 == 1 {
                                before = Some(forged);
                                genuine
                            } else {
                                before = Some(genuine);
                                forged
                            }
                        } else {
                            Op::Verify { members, action, corrupt, corrupt_kind }
                        }
                    },
                };
                ops.extend(before);
                ops.push(op);
            }
            clients.push(ops);
        }
        // cooperative-thread part: 2-3 threads over ONE shared parameter object whose capacity exceeds
        // every aggregate, each thread proving / verifying aggregates of different sizes
        let coop = if index % 2 == 0 {
            let cfree = index % 6 != 4;
            let bits = *rng.pick(&[2usize, 2, 4, 8]);
            let cap = *rng.pick(&[4usize, 8]);
            let ext = if rng.chance(1, 2) { 1 } else { rng.range(1, 6) as usize };
            let n_threads = rng.range(2, 3) as usize;
            let mk = |rng: &mut SimRng| -> ProveDesc {
                let m = *rng.pick(&[1usize, 1, 2, 4]);
                let cfg = Config { bits, m: m.min(cap), cap, ext };
                ProveDesc { cfg, wit: WitnessSpec::generate(rng, &cfg, true), ctx: Context::generate(rng), rng: RngMode::Healthy(rng.next_u64()) }
            };
            let threads: Vec<Vec<Op>> = (0..n_threads)
                .map(|_| {
                    (0..rng.range(1, 3))
                        .map(|_| match rng.below(5) {
                            0 => Op::Prove(mk(rng)),
                            1 => Op::Codec(mk(rng)),
                            _ => {
                                let k = rng.range(1, 3) as usize;
                                let members: Vec<ProveDesc> = (0..k).map(|_| mk(rng)).collect();
                                let corrupt = if rng.chance(1, 5) { Some(rng.usize_below(k)) } else { None };
                                Op::Verify { members, action: rng.usize_below(3), corrupt, corrupt_kind: rng.below(3) as u8 }
                            },
                        })
                        .collect()
                })
                .collect();
            Some(CoopSpec { group: if cfree { "free".into() } else { "ristretto".into() }, bits, cap, ext, threads, seed: rng.next_u64(), stay: *rng.pick(&[4u64, 8, 12, 14]) })
        } else {
            None
        };
        let mut base: Vec<usize> = clients.iter().enumerate().flat_map(|(i, c)| std::iter::repeat(i).take(c.len())).collect();
        let mut schedule_a = base.clone();
        rng.shuffle(&mut schedule_a);
        rng.shuffle(&mut base);
        Scenario { group: if free { "free".into() } else { "ristretto".into() }, coop, clients, schedule_a, schedule_b: base }
    }

    fn execute(&self, sc: &Scenario, st: &mut RunStats) -> Vec<Violation> {
        let mut v = by_group!(sc.group, run(sc, st));
        if v.is_empty() {
            if let Some(cs) = &sc.coop {
                v = by_group!(cs.group, run_coop(cs, st));
                // the cooperative run reset this thread's per-run state; nothing follows it
            }
        }
        v
    }

    fn shrink(&self, sc: &Scenario) -> Vec<Scenario> {
        let mut v = Vec::new();
        if let Some(cs) = &sc.coop {
            // keep only the cooperative part / drop it
            if !sc.clients.iter().all(|c| c.is_empty()) {
                let mut s = sc.clone();
                s.clients.iter_mut().for_each(|c| c.clear());
                v.push(s);
            }
            let mut s = sc.clone();
            s.coop = None;
            v.push(s);
            for t in 0..cs.threads.len() {
                if cs.threads[t].len() > 1 {
                    let mut s = sc.clone();
                    s.coop.as_mut().unwrap().threads[t].pop();
                    v.push(s);
                }
            }
            if cs.threads.len() > 2 {
                for t in 0..cs.threads.len() {
                    let mut s = sc.clone();
                    s.coop.as_mut().unwrap().threads.remove(t);
                    v.push(s);
                }
            }
        }
        // drop a whole client
        if sc.clients.len() > 1 {
            for c in 0..sc.clients.len() {
                let mut s = sc.clone();
                s.clients[c].clear();
                v.push(s);
            }
        }
        // drop the last op of a client
        for c in 0..sc.clients.len() {
            if sc.clients[c].len() > 1 {
                let mut s = sc.clone();
                s.clients[c].pop();
                v.push(s);
                let mut s = sc.clone();
                s.clients[c].remove(0);
                v.push(s);
            }
        }
        if sc.group != "free" {
            let mut s = sc.clone();
            s.group = "free".into();
            v.push(s);
        }
        v
    }

    fn required_probes(&self, _tier: Tier) -> Vec<&'static str> {
        vec!["injected_rng_panic_caught", "second_interleaving", "preemption_inside_library_calls", "coop_thread_switches"]
    }
}
