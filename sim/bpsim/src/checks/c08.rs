//! C08 — batch weighting: defects in different proofs can never cancel.
//!
//! The simulator plays an adaptive adversary with more power than any real one: after every
//! verification run it reads the combination factors the verifier actually used from the MSM log
//! (the scalar on each proof's B point is -weight) and chooses the next perturbations so that they
//! would cancel exactly if the factors did not move.

use curve25519_dalek::scalar::Scalar;
use serde::{Deserialize, Serialize};
use serde_json::Value;
use tari_bulletproofs_plus::{range_proof::{RangeProof, VerifyAction}, range_statement::RangeStatement};

use crate::{
    faultrng::RngMode,
    free::FreePoint,
    group::Group,
    observe::*,
    runner::{Check, RunStats, Tier, Violation},
    simrng::SimRng,
    world::*,
};

#[derive(Clone, Debug, Serialize, Deserialize, PartialEq, Eq)]
pub enum Move {
    /// set the d1[k] offsets of the chosen pair to cancel under the last observed factors
    CancelPair,
    /// additionally change r1 of member `who` (0 = i, 1 = j) by a fresh amount
    TouchR1(usize),
    TouchS1(usize),
    /// permute the batch
    Permute,
    /// three invalid members: offsets solve w_i*x + w_j*y + w_l*z = 0 for the last factors
    CancelTriple,
    /// resubmit unchanged
    Resubmit,
    /// leave member `who` (0 = i, 1 = j) exactly as last submitted and move only the other member's d1[k] so that
    /// the pair cancels under the last observed factors
    CancelHold(usize),
    /// for this one submission, move d1 of member `who` along (c, -1) on the coordinates (k0, k0 + 1), where c
    /// is a public quantity (one of that member's own challenges, its inverse, or a small constant): the
    /// direction that a "random linear combination" of the response vector under c would not see
    TouchKernel { who: usize, c_sel: usize, k0: usize },
}

#[derive(Clone, Debug, Serialize, Deserialize)]
pub struct Member {
    pub m: usize,
    pub cap: usize,
    pub wit: WitnessSpec,
    pub ctx: Context,
    pub rng_seed: u64,
}

#[derive(Clone, Debug, Serialize, Deserialize)]
pub struct Scenario {
    pub bits: usize,
    pub ext: usize,
    pub members: Vec<Member>,
    pub i: usize,
    pub j: usize,
    pub l: usize,
    pub k: usize,
    pub c_seed: u64,
    pub moves: Vec<Move>,
    /// number of copies of an extra honest proof placed in front of the members, so that the
    /// members under attack sit beyond the verifier's internal chunk limit (0 = none)
    #[serde(default)]
    pub fillers: usize,
    /// verify as the commitment owner (RecoverAndVerify, statements carrying their recovery seeds)
    /// instead of as a public verifier
    #[serde(default)]
    pub owner_mode: bool,
    /// every member is submitted twice in the same batch (the channel duplicated the messages);
    /// a member's effective factor is then the sum of the factors of its two copies
    #[serde(default)]
    pub duplicate_all: bool,
    /// member i stands FIRST, the fillers follow, then member j and the rest: the pair is `fillers + 1`
    /// positions apart inside one chunk (distances around powers of two)
    #[serde(default)]
    pub lead: bool,
}

pub struct C08;

struct State {
    parts: Vec<ProofParts>,
    /// current additive offsets
    d_off: Vec<Scalar>,
    r_off: Vec<Scalar>,
    s_off: Vec<Scalar>,
    /// offsets on all coordinates of d1 that last for one submission
    d_extra: Vec<Vec<Scalar>>,
    order: Vec<usize>,
}

fn execute(sc: &Scenario, st: &mut RunStats) -> Vec<Violation> {
    let mut out = Vec::new();
    st.group("free");
    let n = sc.members.len();
    let mut statements: Vec<RangeStatement<FreePoint>> = Vec::new();
    let mut honest: Vec<ProofParts> = Vec::new();
    let mut b_points: Vec<FreePoint> = Vec::new();
    for (mi, m) in sc.members.iter().enumerate() {
        let cfg = Config { bits: sc.bits, m: m.m, cap: m.cap, ext: sc.ext };
        let built = build::<FreePoint>(&cfg, &m.wit);
        let proof = match prove_mode::<FreePoint>(&m.ctx, &built.statement, &built.witness, &RngMode::Healthy(m.rng_seed)).0 {
            Ok(Ok(p)) => p,
            _ => {
                out.push(Violation::new("harness:prover_failed", "setup", format!("member {}", mi)));
                return out;
            },
        };
        let parts = ProofParts::of::<FreePoint>(&proof).expect("layout");
        let b = match FreePoint::dec(&parts.b) {
            Some(b) => b,
            None => {
                out.push(Violation::new("harness:observation_unavailable", "observe", "B handle does not decode".to_string()));
                return out;
            },
        };
        b_points.push(b);
        honest.push(parts);
        statements.push(if sc.owner_mode { built.statement.clone() } else { built.public_statement.clone() });
    }
    // filler: one more honest single-commitment proof, repeated in front of the members
    let filler = if sc.fillers > 0 {
        let cfg = Config { bits: sc.bits, m: 1, cap: 1, ext: sc.ext };
        let wit = WitnessSpec { values: vec![0], promises: vec![None], blind_seed: sc.c_seed ^ 0xF111, seed_nonce: None, zero_blind: vec![], same_as_prev: vec![], same_as_first: vec![], special_blind: None };
        let ctx = Context { label: 5, extra: None };
        let built = build::<FreePoint>(&cfg, &wit);
        match prove_mode::<FreePoint>(&ctx, &built.statement, &built.witness, &RngMode::Healthy(sc.c_seed ^ 0xF112)).0 {
            Ok(Ok(p)) => Some((ctx, built.public_statement.clone(), p)),
            _ => {
                out.push(Violation::new("harness:prover_failed", "setup", "filler".to_string()));
                return out;
            },
        }
    } else {
        None
    };
    if sc.fillers >= 256 {
        st.fault("members_beyond_chunk_limit");
    }
    if sc.fillers + n * if sc.duplicate_all { 2 } else { 1 } == 256 {
        st.fault("batch_fills_exactly_one_chunk");
    }
    if sc.owner_mode {
        st.fault("owner_mode_recover_and_verify");
    }
    if sc.duplicate_all {
        st.fault("every_member_submitted_twice");
    }
    if sc.lead && sc.i % n != sc.j % n {
        st.fault("pair_separated_by_fillers_inside_one_chunk");
    }
    let mut state = State {
        parts: honest.clone(),
        d_off: vec![Scalar::ZERO; n],
        r_off: vec![Scalar::ZERO; n],
        s_off: vec![Scalar::ZERO; n],
        d_extra: vec![vec![Scalar::ZERO; sc.ext]; n],
        order: (0..n).collect(),
    };
    let mut crng = SimRng::new(sc.c_seed);
    let k = sc.k % sc.ext;
    // submission closure
    let submit = |state: &State, st: &mut RunStats| -> Result<(bool, Vec<Scalar>, Vec<Vec<u8>>, Vec<Vec<Scalar>>), Violation> {
        let mut proofs: Vec<RangeProof<FreePoint>> = Vec::new();
        let mut resp: Vec<Vec<u8>> = vec![Vec::new(); state.parts.len()];
        for (mi, hp) in state.parts.iter().enumerate() {
            let mut p = hp.clone();
            let d = ProofParts::scalar(&p.d1[k]).unwrap() + state.d_off[mi];
            p.d1[k] = d.to_bytes();
            p.r1 = (ProofParts::scalar(&p.r1).unwrap() + state.r_off[mi]).to_bytes();
            p.s1 = (ProofParts::scalar(&p.s1).unwrap() + state.s_off[mi]).to_bytes();
            for (kk, x) in state.d_extra[mi].iter().enumerate() {
                if *x != Scalar::ZERO {
                    p.d1[kk] = (ProofParts::scalar(&p.d1[kk]).unwrap() + x).to_bytes();
                }
            }
            for dd in p.d1.iter() {
                resp[mi].extend_from_slice(dd);
            }
            resp[mi].extend_from_slice(&p.r1);
            resp[mi].extend_from_slice(&p.s1);
            proofs.push(FreePoint::from_bytes(&p.to_bytes()).map_err(|e| {
                Violation::new("harness:perturbed_proof_undecodable", "setup", format!("{:?}", e))
            })?);
        }
        let mut ord_sts: Vec<RangeStatement<FreePoint>> = Vec::new();
        let mut ord_pr: Vec<RangeProof<FreePoint>> = Vec::new();
        let mut ctxs: Vec<&Context> = Vec::new();
        // layout: fillers first and the members behind them, or (lead) member i, the fillers, member j, the rest
        let (pi, pj) = (sc.i % state.parts.len(), sc.j % state.parts.len());
        let member_order: Vec<usize> = if sc.lead && pi != pj {
            let mut v = vec![pj];
            v.extend(state.order.iter().copied().filter(|m| *m != pi && *m != pj));
            v
        } else {
            state.order.clone()
        };
        let mut first_pos: Vec<usize> = vec![usize::MAX; state.parts.len()];
        if sc.lead && pi != pj {
            first_pos[pi] = 0;
            ord_sts.push(statements[pi].clone());
            ord_pr.push(proofs[pi].clone());
            ctxs.push(&sc.members[pi].ctx);
        }
        if let Some((fctx, fst, fpr)) = &filler {
            for _ in 0..sc.fillers {
                ord_sts.push(fst.clone());
                ord_pr.push(fpr.clone());
                ctxs.push(fctx);
            }
        }
        for mi in member_order.iter() {
            first_pos[*mi] = ord_sts.len();
            ord_sts.push(statements[*mi].clone());
            ord_pr.push(proofs[*mi].clone());
            ctxs.push(&sc.members[*mi].ctx);
        }
        if sc.duplicate_all {
            for mi in state.order.iter() {
                ord_sts.push(statements[*mi].clone());
                ord_pr.push(proofs[*mi].clone());
                ctxs.push(&sc.members[*mi].ctx);
            }
        }
        let obs = observe_verify(&ctxs, &ord_sts, &ord_pr, if sc.owner_mode { VerifyAction::RecoverAndVerify } else { VerifyAction::VerifyOnly })
            .map_err(|e| Violation::new("harness:observation_unavailable", "observe", e.0))?;
        st.evals += 1;
        let accepted = match &obs.result {
            Ok(Ok(_)) => true,
            Ok(Err(_)) => false,
            Err(c) => return Err(Violation::new("batch_verifier_panicked", "panic", format!("{:?}", c))),
        };
        let last = obs.msm.last().ok_or_else(|| {
            Violation::new("harness:observation_unavailable", "observe", "verifier performed no precomputed MSM".to_string())
        })?;
        let mut w = Vec::new();
        for b in b_points.iter() {
            let hits: Vec<&Scalar> = last.dynamic.iter().filter(|(_, p)| p == b).map(|(s, _)| s).collect();
            let expect = if sc.duplicate_all { 2 } else { 1 };
            if hits.len() != expect {
                return Err(Violation::new(
                    "harness:observation_unavailable",
                    "observe",
                    format!("B point of a member appears {} times in the verifier's final MSM (expected {})", hits.len(), expect),
                ));
            }
            // effective factor of the member: the sum over its copies
            w.push(-hits.iter().fold(Scalar::ZERO, |a, h| a + **h));
        }
        // the challenges of each member's own transcript (first copy), as drawn in this submission
        let mut chal: Vec<Vec<Scalar>> = vec![Vec::new(); state.parts.len()];
        for (mi, pos) in first_pos.iter().enumerate() {
            if let Some(v) = obs.views.get(*pos) {
                chal[mi] = v.challenges.clone();
            }
        }
        Ok((accepted, w, resp, chal))
    };
    // honest submission: must be accepted, factors must be non-zero
    let (acc0, mut w_prev, mut resp_prev, mut chal_prev) = match submit(&state, st) {
        Ok(x) => x,
        Err(v) => {
            out.push(v);
            return out;
        },
    };
    st.event(format!("honest batch n={} accepted={}", n, acc0));
    if !acc0 {
        out.push(Violation::new("harness:honest_batch_rejected", "setup", "the unperturbed batch was rejected".to_string()));
        return out;
    }
    let (i, j, l) = (sc.i % n, sc.j % n, sc.l % n);
    // round 0: arbitrary opposite offsets
    state.d_off[i] = crng.scalar_nz();
    state.d_off[j] = -state.d_off[i];
    for (ri, mv) in std::iter::once(&Move::Resubmit).chain(sc.moves.iter()).enumerate() {
        state.d_extra.iter_mut().for_each(|v| v.iter_mut().for_each(|x| *x = Scalar::ZERO));
        match mv {
            Move::CancelPair => {
                let c = crng.scalar_nz();
                state.d_off[i] = c * w_prev[j];
                state.d_off[j] = -c * w_prev[i];
                st.fault("adaptive_cancel_pair");
            },
            Move::TouchR1(who) => {
                let t = if *who == 0 { i } else { j };
                state.r_off[t] = crng.scalar_nz();
                let c = crng.scalar_nz();
                state.d_off[i] = c * w_prev[j];
                state.d_off[j] = -c * w_prev[i];
                st.fault("adaptive_touch_r1");
            },
            Move::TouchS1(who) => {
                let t = if *who == 0 { i } else { j };
                state.s_off[t] = crng.scalar_nz();
                let c = crng.scalar_nz();
                state.d_off[i] = c * w_prev[j];
                state.d_off[j] = -c * w_prev[i];
                st.fault("adaptive_touch_s1");
            },
            Move::Permute => {
                crng.shuffle(&mut state.order);
                st.fault("adaptive_permute");
            },
            Move::CancelTriple => {
                if l != i && l != j && n >= 3 {
                    // w_i x + w_j y + w_l z = 0 with x, y free
                    let x = crng.scalar_nz();
                    let y = crng.scalar_nz();
                    let z = -(w_prev[i] * x + w_prev[j] * y) * w_prev[l].invert();
                    state.d_off[i] = x;
                    state.d_off[j] = y;
                    state.d_off[l] = z;
                    st.fault("adaptive_cancel_triple");
                }
            },
            Move::Resubmit => {
                st.fault("resubmit");
            },
            Move::TouchKernel { who, c_sel, k0 } => {
                let t = if *who == 0 { i } else { j };
                if sc.ext >= 2 {
                    let ch = &chal_prev[t];
                    let c = match *c_sel {
                        0 if !ch.is_empty() => ch[ch.len() - 1],
                        1 if !ch.is_empty() => ch[0],
                        2 if ch.len() > 1 => ch[1],
                        3 if ch.len() > 2 => ch[2 + (*k0 % (ch.len() - 2))],
                        4 if !ch.is_empty() => ch[ch.len() - 1].invert(),
                        5 => Scalar::ONE,
                        6 => -Scalar::ONE,
                        _ => Scalar::from(2u64),
                    };
                    let k0 = *k0 % (sc.ext - 1);
                    let tau = crng.scalar_nz();
                    state.d_extra[t][k0] = c * tau;
                    state.d_extra[t][k0 + 1] = -tau;
                    st.fault("adaptive_touch_along_public_kernel");
                }
            },
            Move::CancelHold(who) => {
                let (held, moved) = if *who == 0 { (i, j) } else { (j, i) };
                if held != moved {
                    if state.d_off[held] == Scalar::ZERO {
                        state.d_off[held] = crng.scalar_nz();
                    } else {
                        state.d_off[moved] = -(w_prev[held] * state.d_off[held]) * w_prev[moved].invert();
                    }
                    st.fault("adaptive_cancel_hold_one");
                }
            },
        }
        let (acc, w, resp, chal) = match submit(&state, st) {
            Ok(x) => x,
            Err(v) => {
                out.push(v);
                return out;
            },
        };
        let invalid = state.d_off.iter().chain(state.r_off.iter()).chain(state.s_off.iter()).chain(state.d_extra.iter().flatten()).any(|s| *s != Scalar::ZERO);
        st.event(format!(
            "round {} move {:?} order {:?} accepted={} w={}",
            ri,
            mv,
            state.order,
            acc,
            crate::runner::digest(&[&w.iter().flat_map(|s| s.to_bytes()).collect::<Vec<u8>>()])
        ));
        if acc && invalid {
            out.push(Violation::new(
                "batch_with_invalid_members_accepted",
                format!("{:?}", std::mem::discriminant(mv)),
                format!(
                    "round {}: after move {:?} the batch of {} proofs (members {} and {}{} carry offsetting defects on d1[{}] computed from the factors of the previous run) was ACCEPTED",
                    ri,
                    mv,
                    n,
                    i,
                    j,
                    if state.d_off[l] != Scalar::ZERO && l != i && l != j { format!(" and {}", l) } else { String::new() },
                    k
                ),
            ));
            return out;
        }
        for (mi, wv) in w.iter().enumerate() {
            if *wv == Scalar::ZERO {
                out.push(Violation::new("zero_batch_weight", "weight", format!("round {}: the factor of member {} is zero", ri, mi)));
                return out;
            }
        }
        // ratio moves whenever a response scalar of i or j moved
        let changed = resp[i] != resp_prev[i] || resp[j] != resp_prev[j];
        if changed && i != j {
            st.probe("ratio_checked_after_response_change");
            let ratio_now = w[i] * w[j].invert();
            let ratio_prev = w_prev[i] * w_prev[j].invert();
            if ratio_now == ratio_prev {
                out.push(Violation::new(
                    "weight_ratio_unchanged_after_response_change",
                    format!("{:?}", std::mem::discriminant(mv)),
                    format!(
                        "round {} (move {:?}): a response scalar of member {} or {} changed but the ratio of their combination factors did not",
                        ri, mv, i, j
                    ),
                ));
                return out;
            }
        }
        w_prev = w;
        resp_prev = resp;
        chal_prev = chal;
    }
    out
}

impl Check for C08 {
    type Scenario = Scenario;

    fn id(&self) -> &'static str {
        "C08"
    }

    fn level(&self) -> &'static str {
        "exploration"
    }

    fn rule(&self) -> String {
        "each seeded run is an adaptive game against the real batch verifier over the free module: 2-5 honest proofs over one generator set (bits*m >= 2, ext 1..6, mixed aggregation), a pair (i, j) and coordinate k; the adversary submits, reads the factors w_i(t), w_j(t) actually used from the verifier's final MSM (scalar on B_i), and chooses the next perturbation of d1[k] (delta_i = c*w_j, delta_j = -c*w_i: exact cancellation if the factors stay), optionally also touching r1/s1 of one member, permuting the batch, holding one member exactly as last submitted while adapting only the other, moving one member's d1 for one submission along a direction (c, -1) built from a public quantity c (its own challenges, their inverse, small constants), or solving a three-member linear dependency; the members stand alone, behind 256+ fillers, at the end of an exactly full chunk of 256, or with the pair 2..240 positions apart inside one chunk (distances around powers of two); 8 rounds (64 thorough); invariants after every submission: a batch with an invalid member is rejected, every factor is non-zero, the ratio w_i/w_j changes whenever a response scalar of i or j changed; one evaluation = one verify_batch call; distinct = distinct event-log hashes".into()
    }

    fn assumptions(&self) -> Vec<String> {
        vec![
            "factors are observable only over the free module (real verifier code, stub group)".into(),
            "the simulated adversary is stronger than a real one (it reads the factors) but still cannot predict the factors of the NEXT run without evaluating the hash; a property-breaking verifier is one whose factors do not depend on the response scalars".into(),
            "an accidental exact cancellation has probability 2^-252".into(),
        ]
    }

    fn components(&self) -> Value {
        super::components_native()
    }

    fn runs(&self, tier: Tier) -> u64 {
        match tier {
            Tier::Quick => 2_000,
            Tier::Thorough => 150_000,
        }
    }

    fn generate(&self, rng: &mut SimRng, tier: Tier, _index: u64) -> Scenario {
        let bits = *rng.pick(&[2usize, 2, 4, 8, 16]);
        let ext = if rng.chance(1, 2) { 1 } else { rng.range(1, 6) as usize };
        let n = rng.range(2, 5) as usize;
        let owner_mode = rng.chance(1, 3);
        let members: Vec<Member> = (0..n)
            .map(|_| {
                let m = *rng.pick(&[1usize, 1, 2, 4]);
                let cap = if rng.chance(1, 4) { m * 2 } else { m };
                let cfg = Config { bits, m, cap, ext };
                let mut wit = WitnessSpec::generate(rng, &cfg, false);
                if owner_mode && m == 1 {
                    wit.seed_nonce = Some(rng.next_u64() | 4);
                }
                Member { m, cap, wit, ctx: Context::generate(rng), rng_seed: rng.next_u64() }
            })
            .collect();
        let i = rng.usize_below(n);
        let mut j = rng.usize_below(n);
        if j == i {
            j = (i + 1) % n;
        }
        let rounds = if tier == Tier::Quick { 8 } else { *rng.pick(&[8usize, 16, 64]) };
        let moves = (0..rounds)
            .map(|_| match rng.below(10) {
                0 => Move::TouchR1(rng.usize_below(2)),
                1 => Move::TouchS1(rng.usize_below(2)),
                2 => Move::Permute,
                3 => Move::CancelTriple,
                4 => Move::Resubmit,
                5 | 6 => Move::CancelHold(rng.usize_below(2)),
                7 if ext >= 2 => Move::TouchKernel { who: rng.usize_below(2), c_sel: rng.usize_below(8), k0: rng.usize_below(6) },
                _ => Move::CancelPair,
            })
            .collect();
        // one run in twelve places the members behind 256..300 fillers (second chunk), sometimes 512+
        let fillers = match rng.below(24) {
            0 => 256,
            1 => rng.range(257, 300) as usize,
            // exactly one full chunk: the last member sits at position 255
            2 | 3 => usize::MAX,
            _ => 0,
        };
        let fillers = if fillers > 0 && fillers != usize::MAX && tier == Tier::Thorough && rng.chance(1, 4) { 512 + rng.usize_below(8) } else { fillers };
        let duplicate_all = rng.chance(1, 6);
        let fillers = if fillers == usize::MAX { 256 - n * if duplicate_all { 2 } else { 1 } } else { fillers };
        // one run in eight: the pair stands d positions apart inside one chunk
        let lead = rng.chance(1, 8);
        let fillers = if lead {
            let d = *rng.pick(&[2usize, 3, 4, 8, 15, 16, 17, 31, 32, 33, 48, 63, 64, 65, 96, 127, 128, 129, 200, 240]);
            d - 1
        } else {
            fillers
        };
        Scenario { bits, ext, members, i, j, l: rng.usize_below(n), k: rng.usize_below(ext), c_seed: rng.next_u64(), moves, fillers, owner_mode, duplicate_all, lead }
    }

    fn execute(&self, sc: &Scenario, st: &mut RunStats) -> Vec<Violation> {
        execute(sc, st)
    }

    fn shrink(&self, sc: &Scenario) -> Vec<Scenario> {
        let mut v = Vec::new();
        if !sc.moves.is_empty() {
            let mut s = sc.clone();
            s.moves.truncate(sc.moves.len() / 2);
            v.push(s);
            let mut s = sc.clone();
            s.moves.pop();
            v.push(s);
            for i in 0..sc.moves.len() {
                let mut s = sc.clone();
                s.moves.remove(i);
                v.push(s);
            }
        }
        if sc.members.len() > 2 {
            for r in 0..sc.members.len() {
                if r == sc.i % sc.members.len() || r == sc.j % sc.members.len() {
                    continue;
                }
                let mut s = sc.clone();
                s.members.remove(r);
                let fix = |x: usize| if x % sc.members.len() > r { x % sc.members.len() - 1 } else { x % sc.members.len() };
                s.i = fix(sc.i);
                s.j = fix(sc.j);
                s.l = fix(sc.l).min(s.members.len() - 1);
                v.push(s);
            }
        }
        if sc.ext > 1 {
            let mut s = sc.clone();
            s.ext = 1;
            s.k = 0;
            v.push(s);
        }
        if sc.owner_mode {
            let mut s = sc.clone();
            s.owner_mode = false;
            v.push(s);
        }
        if sc.duplicate_all {
            let mut s = sc.clone();
            s.duplicate_all = false;
            v.push(s);
        }
        if sc.fillers > 0 {
            let mut s = sc.clone();
            s.fillers = 0;
            v.push(s);
            if sc.fillers > 256 {
                let mut s = sc.clone();
                s.fillers = 256;
                v.push(s);
            }
        }
        v
    }

    fn required_probes(&self, _tier: Tier) -> Vec<&'static str> {
        vec![
            "adaptive_cancel_pair", "adaptive_touch_r1", "adaptive_touch_s1", "adaptive_permute", "adaptive_cancel_triple", "adaptive_cancel_hold_one", "adaptive_touch_along_public_kernel", "pair_separated_by_fillers_inside_one_chunk",
            "resubmit", "ratio_checked_after_response_change", "members_beyond_chunk_limit", "batch_fills_exactly_one_chunk", "owner_mode_recover_and_verify", "every_member_submitted_twice",
        ]
    }
}
