//! Observation through the simulator-owned seams: merlin tap (Fiat–Shamir oracle), free-module
//! coordinates (nonces), MSM log (verifier residual and batch weights).
//!
//! Every verdict that depends on an extracted quantity is gated by self-checks; if they fail the
//! result is `ObsError` ("observation unavailable", exit 2), never a violation: a change of byte
//! layout or transcript structure is some other property's business.

use blake2::Blake2bMac512;
use curve25519_dalek::scalar::Scalar;
use digest::FixedOutput;
use merlin::tap::{self, Event};
use tari_bulletproofs_plus::{
    range_parameters::RangeParameters,
    range_proof::{RangeProof, VerifyAction},
    range_statement::RangeStatement,
    range_witness::RangeWitness,
};

use crate::{
    faultrng::{FaultRng, RngMode},
    free::{self, FreeCompressed, FreePoint, MsmEntry},
    world::*,
};

#[derive(Debug, Clone)]
pub struct ObsError(pub String);

pub fn challenge_scalar(out: &[u8]) -> Option<Scalar> {
    if out.len() != 64 {
        return None;
    }
    let mut b = [0u8; 64];
    b.copy_from_slice(out);
    Some(Scalar::from_bytes_mod_order_wide(&b))
}

/// The caller-transcript view of one prover or verifier run.
#[derive(Clone, Debug)]
pub struct TranscriptView {
    pub tid: u64,
    pub events: Vec<Event>,
    /// all challenges drawn on the caller's transcript, by ordinal
    pub challenges: Vec<Scalar>,
    /// for each challenge, the index in `events` where it was drawn
    pub challenge_pos: Vec<usize>,
}

impl TranscriptView {
    pub fn from_events(all: &[Event], tid: u64) -> Result<TranscriptView, ObsError> {
        let events: Vec<Event> = all.iter().filter(|e| e.tid() == tid).cloned().collect();
        let mut challenges = Vec::new();
        let mut challenge_pos = Vec::new();
        for (i, e) in events.iter().enumerate() {
            if let Event::Challenge { out, .. } = e {
                challenges.push(challenge_scalar(out).ok_or_else(|| ObsError("challenge draw is not 64 bytes wide".into()))?);
                challenge_pos.push(i);
            }
        }
        Ok(TranscriptView { tid, events, challenges, challenge_pos })
    }

    /// messages appended strictly between challenge `ord-1` and challenge `ord` (0-based ordinals;
    /// `ord == 0`: everything before the first challenge)
    pub fn appends_before(&self, ord: usize) -> Vec<(&'static [u8], Vec<u8>)> {
        let end = self.challenge_pos[ord];
        let start = if ord == 0 { 0 } else { self.challenge_pos[ord - 1] + 1 };
        self.events[start..end]
            .iter()
            .filter_map(|e| match e {
                Event::Append { label, msg, .. } => Some((*label, msg.clone())),
                _ => None,
            })
            .collect()
    }

    pub fn public_appends(&self) -> Vec<(&'static [u8], Vec<u8>)> {
        self.events
            .iter()
            .filter_map(|e| match e {
                Event::Append { label, msg, .. } => Some((*label, msg.clone())),
                _ => None,
            })
            .collect()
    }
}

#[derive(Clone, Debug, Default, PartialEq, Eq)]
pub struct Nonces {
    pub alpha: Vec<Scalar>,
    pub dl: Vec<Vec<Scalar>>,
    pub dr: Vec<Vec<Scalar>>,
    pub d: Vec<Scalar>,
    pub eta: Vec<Scalar>,
    pub r: Scalar,
    pub s: Scalar,
}

impl Nonces {
    /// (name, value) of every nonce; names are stable identifiers used in reports.
    pub fn all(&self) -> Vec<(String, Scalar)> {
        let mut v = Vec::new();
        for (k, x) in self.alpha.iter().enumerate() {
            v.push((format!("alpha[{}]", k), *x));
        }
        for (j, row) in self.dl.iter().enumerate() {
            for (k, x) in row.iter().enumerate() {
                v.push((format!("dL[{}][{}]", j, k), *x));
            }
        }
        for (j, row) in self.dr.iter().enumerate() {
            for (k, x) in row.iter().enumerate() {
                v.push((format!("dR[{}][{}]", j, k), *x));
            }
        }
        for (k, x) in self.d.iter().enumerate() {
            v.push((format!("d[{}]", k), *x));
        }
        for (k, x) in self.eta.iter().enumerate() {
            v.push((format!("eta[{}]", k), *x));
        }
        v.push(("r".into(), self.r));
        v.push(("s".into(), self.s));
        v
    }

    /// only those that come from the RNG when a seed is present
    pub fn rng_derived(&self, seeded: bool) -> Vec<(String, Scalar)> {
        if seeded {
            vec![("r".into(), self.r), ("s".into(), self.s)]
        } else {
            self.all()
        }
    }
}

pub struct ProverObs {
    pub proof: RangeProof<FreePoint>,
    pub parts: ProofParts,
    pub view: TranscriptView,
    pub a: FreePoint,
    pub a1: FreePoint,
    pub b: FreePoint,
    pub l: Vec<FreePoint>,
    pub r: Vec<FreePoint>,
    pub y: Scalar,
    pub z: Scalar,
    pub e_rounds: Vec<Scalar>,
    pub e_final: Scalar,
    pub nonces: Nonces,
    /// 32-byte blocks taken from the external RNG, in order
    pub rng_blocks: Vec<[u8; 32]>,
    /// outputs of the transcript RNG (each draw)
    pub rng_outputs: Vec<Vec<u8>>,
    pub frng_calls: usize,
    pub frng_bytes: usize,
    pub served: Vec<u8>,
}

fn lookup(h: &[u8; 32]) -> Result<FreePoint, ObsError> {
    FreeCompressed(*h)
        .lookup()
        .ok_or_else(|| ObsError(format!("handle {} does not decode", hex::encode(&h[..6]))))
}

pub enum ProveOutcome {
    Proved(Box<ProverObs>),
    Refused(String),
    Caught(Caught, FaultRng),
}

/// Run the real prover over the free module with the tap on and extract everything observable.
pub fn observe_prove(
    ctx: &Context,
    params: &RangeParameters<FreePoint>,
    st: &RangeStatement<FreePoint>,
    w: &RangeWitness,
    mode: &RngMode,
) -> Result<ProveOutcome, ObsError> {
    let mut frng = FaultRng::new(mode.clone());
    tap::start();
    let mut t = ctx.transcript();
    let tid = t.tap_id();
    let res = guarded(|| <FreePoint as crate::group::Group>::prove(&mut t, st, w, &mut frng));
    let events = tap::stop();
    let proof = match res {
        Ok(Ok(p)) => p,
        Ok(Err(e)) => return Ok(ProveOutcome::Refused(format!("{:?}", e))),
        Err(c) => return Ok(ProveOutcome::Caught(c, frng)),
    };
    let view = TranscriptView::from_events(&events, tid)?;
    let parts = ProofParts::of::<FreePoint>(&proof).ok_or_else(|| ObsError("proof bytes do not have the expected layout".into()))?;
    let rounds = parts.lr.len();
    if view.challenges.len() != 3 + rounds {
        return Err(ObsError(format!(
            "prover drew {} challenges, harness expects 3 + rounds = {}",
            view.challenges.len(),
            3 + rounds
        )));
    }
    // identification 1: from the prover's own appends
    let last32 = |v: &[(&'static [u8], Vec<u8>)], back: usize| -> Result<[u8; 32], ObsError> {
        let i = v.len().checked_sub(back).ok_or_else(|| ObsError("not enough appends before a challenge".into()))?;
        let m = &v[i].1;
        if m.len() != 32 {
            return Err(ObsError("appended proof message is not 32 bytes".into()));
        }
        let mut a = [0u8; 32];
        a.copy_from_slice(m);
        Ok(a)
    };
    let before_y = view.appends_before(0);
    let a_h = last32(&before_y, 1)?;
    let mut l_h = Vec::new();
    let mut r_h = Vec::new();
    for j in 0..rounds {
        let ap = view.appends_before(2 + j);
        l_h.push(last32(&ap, 2)?);
        r_h.push(last32(&ap, 1)?);
    }
    let ap = view.appends_before(2 + rounds);
    let a1_h = last32(&ap, 2)?;
    let b_h = last32(&ap, 1)?;
    // identification 2: from the harness's parse of the bytes
    if a_h != parts.a || a1_h != parts.a1 || b_h != parts.b {
        return Err(ObsError("A/A1/B identified from transcript appends differ from the byte layout".into()));
    }
    for j in 0..rounds {
        if l_h[j] != parts.lr[j].0 || r_h[j] != parts.lr[j].1 {
            return Err(ObsError("L/R identified from transcript appends differ from the byte layout".into()));
        }
    }
    let a = lookup(&a_h)?;
    let a1 = lookup(&a1_h)?;
    let b = lookup(&b_h)?;
    let l: Vec<FreePoint> = l_h.iter().map(lookup).collect::<Result<_, _>>()?;
    let r: Vec<FreePoint> = r_h.iter().map(lookup).collect::<Result<_, _>>()?;
    let y = view.challenges[0];
    let z = view.challenges[1];
    let e_rounds: Vec<Scalar> = view.challenges[2..2 + rounds].to_vec();
    let e_final = view.challenges[2 + rounds];
    // nonce coordinates
    let gid = |p: &FreePoint| p.as_basis().ok_or_else(|| ObsError("a generator is not a basis element".into()));
    let g_ids: Vec<u64> = params.g_bases().iter().map(gid).collect::<Result<_, _>>()?;
    let h_id = gid(params.h_base())?;
    let gi0 = gid(params.gi_base_iter().next().ok_or_else(|| ObsError("no Gi".into()))?)?;
    let hi0 = gid(params.hi_base_iter().next().ok_or_else(|| ObsError("no Hi".into()))?)?;
    let mut distinct = g_ids.clone();
    distinct.extend_from_slice(&[h_id, gi0, hi0]);
    distinct.sort_unstable();
    distinct.dedup();
    let degenerate = distinct.len() != g_ids.len() + 3;
    let e_prod: Scalar = e_rounds.iter().product();
    let nonces = Nonces {
        alpha: g_ids.iter().map(|g| a.coeff(*g)).collect(),
        dl: l.iter().map(|p| g_ids.iter().map(|g| p.coeff(*g)).collect()).collect(),
        dr: r.iter().map(|p| g_ids.iter().map(|g| p.coeff(*g)).collect()).collect(),
        d: g_ids.iter().map(|g| a1.coeff(*g)).collect(),
        eta: g_ids.iter().map(|g| b.coeff(*g)).collect(),
        r: a1.coeff(gi0) * e_prod,
        s: a1.coeff(hi0) * e_prod.invert(),
    };
    // self-check: B[H] = r * y * s (only meaningful when H is its own axis)
    if !degenerate && b.coeff(h_id) != nonces.r * y * nonces.s {
        return Err(ObsError("extracted r, s do not satisfy B[H] = r*y*s".into()));
    }
    let mut rng_blocks = Vec::new();
    let mut rng_outputs = Vec::new();
    for e in &view.events {
        match e {
            Event::RngFinalize { ext, .. } => rng_blocks.push(*ext),
            Event::RngOutput { out, .. } => rng_outputs.push(out.clone()),
            _ => {},
        }
    }
    Ok(ProveOutcome::Proved(Box::new(ProverObs {
        proof,
        parts,
        view,
        a,
        a1,
        b,
        l,
        r,
        y,
        z,
        e_rounds,
        e_final,
        nonces,
        rng_blocks,
        rng_outputs,
        frng_calls: frng.calls,
        frng_bytes: frng.bytes,
        served: frng.served.clone(),
    })))
}

pub struct VerifierObs {
    pub result: VerifyResult,
    /// per member: the caller-transcript view
    pub views: Vec<TranscriptView>,
    pub all_events: Vec<Event>,
    /// MSM log entries produced during the call
    pub msm: Vec<MsmEntry>,
}

/// Run the real verifier over the free module with tap and MSM log on.
pub fn observe_verify(
    ctxs: &[&Context],
    sts: &[RangeStatement<FreePoint>],
    proofs: &[RangeProof<FreePoint>],
    action: VerifyAction,
) -> Result<VerifierObs, ObsError> {
    tap::start();
    let mut trs: Vec<merlin::Transcript> = ctxs.iter().map(|c| c.transcript()).collect();
    let tids: Vec<u64> = trs.iter().map(|t| t.tap_id()).collect();
    free::take_msm_log();
    free::msm_log_enable(true);
    let result = guarded(|| <FreePoint as crate::group::Group>::verify(&mut trs, sts, proofs, action));
    free::msm_log_enable(false);
    let msm = free::take_msm_log();
    let all_events = tap::stop();
    let views = tids
        .iter()
        .map(|t| TranscriptView::from_events(&all_events, *t))
        .collect::<Result<Vec<_>, _>>()?;
    Ok(VerifierObs { result, views, all_events, msm })
}

/// The harness's own statement of the documented seed-nonce function:
/// BLAKE2b-512 keyed with 0x00 ‖ seed ‖ ['j' ‖ LE32(j)] ‖ ['k' ‖ LE32(k)], personalisation = label,
/// empty salt, output reduced mod ℓ as a 512-bit little-endian integer.
pub fn reference_nonce(seed: &Scalar, label: &str, j: Option<usize>, k: Option<usize>) -> Scalar {
    let mut key = Vec::with_capacity(43);
    key.push(0u8);
    key.extend_from_slice(seed.as_bytes());
    if let Some(j) = j {
        key.push(b'j');
        key.extend_from_slice(&(j as u32).to_le_bytes());
    }
    if let Some(k) = k {
        key.push(b'k');
        key.extend_from_slice(&(k as u32).to_le_bytes());
    }
    let mac = Blake2bMac512::new_with_salt_and_personal(&key, &[], label.as_bytes()).expect("blake2b parameters");
    let mut out = [0u8; 64];
    out.copy_from_slice(mac.finalize_fixed().as_slice());
    Scalar::from_bytes_mod_order_wide(&out)
}
