//! A dishonest prover owned by the simulator (C02, C16): it mirrors the protocol by hand through the
//! public API only (generators from the parameters, Fiat–Shamir challenges drawn from a transcript it
//! feeds itself) and may run the weighted inner-product argument over vectors that are `extra_rounds`
//! folding rounds LONGER than the statement's bits*m generators. The surplus coordinates sit on no
//! generator (identity), so they are bound by nothing and can be chosen after y, z such that the
//! weighted inner product comes out to whatever the verifier's h-term requires, for ANY committed
//! scalar. The published relation has exactly log2(bits*m) rounds: a verifier that enforces it
//! refuses such a proof; one that sizes its folding scalars from the number of L/R pairs accepts.
//!
//! With `extra_rounds == 0` this is the ordinary prover: an in-range value must then be accepted
//! (this is how the mirror's faithfulness is measured, by probe, on every run).

use curve25519_dalek::scalar::Scalar;

use crate::{
    channel::Msg,
    group::Group,
    simrng::SimRng,
    world::{std_params, Context, ProofParts},
};

pub struct ForgeSpec<'a> {
    pub bits: usize,
    pub m: usize,
    pub cap: usize,
    pub ext: usize,
    pub ctx: &'a Context,
    /// committed values as scalars (any scalar, not necessarily below 2^bits)
    pub values: Vec<Scalar>,
    /// the bit vector committed in A for slot j is the decomposition of bits_of[j]
    pub bits_of: Vec<u64>,
    pub promises: Vec<Option<u64>>,
    pub extra_rounds: usize,
    pub seed: u64,
}

fn msm<G: Group>(s: &[Scalar], p: &[G]) -> G {
    debug_assert_eq!(s.len(), p.len());
    G::multiscalar_mul(s.iter(), p.iter())
}

fn challenge(t: &mut merlin::Transcript, label: &'static [u8]) -> Option<Scalar> {
    let mut buf = [0u8; 64];
    t.challenge_bytes(label, &mut buf);
    let v = Scalar::from_bytes_mod_order_wide(&buf);
    if v == Scalar::ZERO {
        None
    } else {
        Some(v)
    }
}

/// None when the forger cannot proceed (an identity point where the transcript refuses one).
pub fn forge<G: Group>(sp: &ForgeSpec) -> Option<Msg<G>> {
    let mut rng = SimRng::new(sp.seed);
    let n = sp.bits;
    let mn = sp.bits * sp.m;
    let params = std_params::<G>(sp.bits, sp.cap, sp.ext);
    let h = params.h_base().clone();
    let g: Vec<G> = params.g_bases().to_vec();
    let mut gi: Vec<G> = params.gi_base_iter().take(mn).cloned().collect();
    let mut hi: Vec<G> = params.hi_base_iter().take(mn).cloned().collect();
    if gi.len() != mn || hi.len() != mn || g.len() != sp.ext {
        return None;
    }
    let gmask = |s: &[Scalar]| -> G { msm::<G>(s, &g) };
    let rand_vec = |r: &mut SimRng| -> Vec<Scalar> { (0..sp.ext).map(|_| r.scalar()).collect() };

    // commitments
    let masks: Vec<Vec<Scalar>> = (0..sp.m).map(|_| rand_vec(&mut rng)).collect();
    let commitments: Vec<G> = (0..sp.m).map(|j| G::sum(&G::scale(&h, &sp.values[j]), &gmask(&masks[j]))).collect();
    if commitments.iter().any(|c| *c == G::identity()) {
        return None;
    }

    // statement absorption
    let mut t = sp.ctx.transcript();
    t.append_message(b"dom-sep", b"Bulletproofs+ Range Proof");
    t.append_message(b"H", &G::enc(&h));
    for gk in &g {
        t.append_message(b"G", &G::enc(gk));
    }
    t.append_u64(b"N", sp.bits as u64);
    t.append_u64(b"T", sp.ext as u64);
    t.append_u64(b"M", sp.m as u64);
    for c in &commitments {
        t.append_message(b"Ci", &G::enc(c));
    }
    for p in &sp.promises {
        t.append_u64(b"vi - minimum_value", p.unwrap_or(0));
    }

    // bit vectors and A
    let mut a_l = Vec::with_capacity(mn);
    for j in 0..sp.m {
        for i in 0..n {
            a_l.push(Scalar::from((sp.bits_of[j] >> i) & 1));
        }
    }
    let a_r: Vec<Scalar> = a_l.iter().map(|b| b - Scalar::ONE).collect();
    let mut alpha = rand_vec(&mut rng);
    let a = G::sum(&G::sum(&msm::<G>(&a_l, &gi), &msm::<G>(&a_r, &hi)), &gmask(&alpha));
    if a == G::identity() {
        return None;
    }
    t.append_message(b"A", &G::enc(&a));
    let y = challenge(&mut t, b"y")?;
    let z = challenge(&mut t, b"z")?;
    let z2 = z * z;

    let full = mn << sp.extra_rounds;
    let mut yp = Vec::with_capacity(full + 2);
    let mut cur = Scalar::ONE;
    for _ in 0..full + 2 {
        yp.push(cur);
        cur *= y;
    }

    // d_(j*n+i) = z^(2(j+1)) * 2^i
    let two = Scalar::from(2u8);
    let mut d = Vec::with_capacity(mn);
    let mut zj = z2;
    for _ in 0..sp.m {
        let mut v = zj;
        for _ in 0..n {
            d.push(v);
            v *= two;
        }
        zj *= z2;
    }
    let d_sum: Scalar = d.iter().sum();
    let y_sum: Scalar = yp[1..=mn].iter().sum();

    let mut a_vec: Vec<Scalar> = a_l.iter().map(|a| a - z).collect();
    let mut b_vec: Vec<Scalar> = (0..mn).map(|i| a_r[i] + d[i] * yp[mn - i] + z).collect();
    let mut zj = z2;
    let mut expected = Scalar::ZERO;
    for j in 0..sp.m {
        for k in 0..sp.ext {
            alpha[k] += zj * masks[j][k] * yp[mn + 1];
        }
        expected += zj * yp[mn + 1] * (sp.values[j] - Scalar::from(sp.promises[j].unwrap_or(0)));
        zj *= z2;
    }
    expected += -(yp[mn + 1] * z * d_sum) - (z2 - z) * y_sum;
    let actual: Scalar = (0..mn).map(|i| a_vec[i] * b_vec[i] * yp[i + 1]).sum();

    if sp.extra_rounds > 0 {
        a_vec.resize(full, Scalar::ZERO);
        b_vec.resize(full, Scalar::ZERO);
        gi.resize(full, G::identity());
        hi.resize(full, G::identity());
        a_vec[mn] = Scalar::ONE;
        b_vec[mn] = (expected - actual) * yp[mn + 1].invert();
    }

    let mut lr = Vec::new();
    let mut len = full;
    while len > 1 {
        len /= 2;
        let (a_lo, a_hi) = a_vec.split_at(len);
        let (b_lo, b_hi) = b_vec.split_at(len);
        let (gi_lo, gi_hi) = gi.split_at(len);
        let (hi_lo, hi_hi) = hi.split_at(len);
        let y_n_inv = yp[len].invert();
        let a_lo_off: Vec<Scalar> = a_lo.iter().map(|s| s * y_n_inv).collect();
        let a_hi_off: Vec<Scalar> = a_hi.iter().map(|s| s * yp[len]).collect();
        let d_l = rand_vec(&mut rng);
        let d_r = rand_vec(&mut rng);
        let c_l: Scalar = (0..len).map(|i| a_lo[i] * yp[i + 1] * b_hi[i]).sum();
        let c_r: Scalar = (0..len).map(|i| a_hi[i] * yp[len + i + 1] * b_lo[i]).sum();
        let l = G::sum(&G::sum(&G::scale(&h, &c_l), &gmask(&d_l)), &G::sum(&msm::<G>(&a_lo_off, gi_hi), &msm::<G>(b_hi, hi_lo)));
        let r = G::sum(&G::sum(&G::scale(&h, &c_r), &gmask(&d_r)), &G::sum(&msm::<G>(&a_hi_off, gi_lo), &msm::<G>(b_lo, hi_hi)));
        if l == G::identity() || r == G::identity() {
            return None;
        }
        let (le, re) = (G::enc(&l), G::enc(&r));
        t.append_message(b"L", &le);
        t.append_message(b"R", &re);
        lr.push((le, re));
        let e = challenge(&mut t, b"e")?;
        let e_inv = e.invert();
        let new_gi: Vec<G> = (0..len).map(|i| G::sum(&G::scale(&gi_lo[i], &e_inv), &G::scale(&gi_hi[i], &(e * y_n_inv)))).collect();
        let new_hi: Vec<G> = (0..len).map(|i| G::sum(&G::scale(&hi_lo[i], &e), &G::scale(&hi_hi[i], &e_inv))).collect();
        let new_a: Vec<Scalar> = (0..len).map(|i| a_lo[i] * e + a_hi_off[i] * e_inv).collect();
        let new_b: Vec<Scalar> = (0..len).map(|i| b_lo[i] * e_inv + b_hi[i] * e).collect();
        for k in 0..sp.ext {
            alpha[k] += d_l[k] * e * e + d_r[k] * e_inv * e_inv;
        }
        gi = new_gi;
        hi = new_hi;
        a_vec = new_a;
        b_vec = new_b;
    }

    let r = rng.scalar();
    let s = rng.scalar();
    let d_mask = rand_vec(&mut rng);
    let eta = rand_vec(&mut rng);
    let a1 = G::sum(
        &G::sum(&G::scale(&gi[0], &r), &G::scale(&hi[0], &s)),
        &G::sum(&G::scale(&h, &(r * y * b_vec[0] + s * y * a_vec[0])), &gmask(&d_mask)),
    );
    let b = G::sum(&G::scale(&h, &(r * y * s)), &gmask(&eta));
    if a1 == G::identity() || b == G::identity() {
        return None;
    }
    t.append_message(b"A1", &G::enc(&a1));
    t.append_message(b"B", &G::enc(&b));
    let e = challenge(&mut t, b"e")?;
    let r1 = r + a_vec[0] * e;
    let s1 = s + b_vec[0] * e;
    let d1: Vec<[u8; 32]> = (0..sp.ext).map(|k| (eta[k] + d_mask[k] * e + alpha[k] * e * e).to_bytes()).collect();

    let parts = ProofParts { ext_tag: sp.ext as u8, d1, a: G::enc(&a), a1: G::enc(&a1), b: G::enc(&b), r1: r1.to_bytes(), s1: s1.to_bytes(), lr };
    Some(Msg {
        bits: sp.bits,
        cap: sp.cap,
        ext: sp.ext,
        pc: None,
        commitments,
        promises: sp.promises.clone(),
        seed: None,
        ctx: sp.ctx.clone(),
        proof: parts.to_bytes(),
        force_seed: None,
    })
}
