//! The only PRNG of the simulator: SplitMix64-seeded xoshiro256**, implemented here so that no
//! dependency version can change a stream. Sub-streams are split by label so that adding a draw
//! in one place never shifts another.

use curve25519_dalek::scalar::Scalar;

pub const DEFAULT_SEED: u64 = 0xB9_5EED;

#[derive(Clone, Debug)]
pub struct SimRng {
    s: [u64; 4],
}

fn splitmix(x: &mut u64) -> u64 {
    *x = x.wrapping_add(0x9E37_79B9_7F4A_7C15);
    let mut z = *x;
    z = (z ^ (z >> 30)).wrapping_mul(0xBF58_476D_1CE4_E5B9);
    z = (z ^ (z >> 27)).wrapping_mul(0x94D0_49BB_1331_11EB);
    z ^ (z >> 31)
}

fn fnv64(label: &str) -> u64 {
    let mut h: u64 = 0xcbf2_9ce4_8422_2325;
    for b in label.as_bytes() {
        h ^= u64::from(*b);
        h = h.wrapping_mul(0x0000_0100_0000_01B3);
    }
    h
}

impl SimRng {
    pub fn new(seed: u64) -> Self {
        let mut x = seed;
        let s = [splitmix(&mut x), splitmix(&mut x), splitmix(&mut x), splitmix(&mut x)];
        SimRng { s }
    }

    /// Stream of run `index` of check `check` under root `seed`.
    pub fn for_run(seed: u64, check: &str, index: u64) -> Self {
        let mut x = seed ^ fnv64(check).rotate_left(17);
        let a = splitmix(&mut x);
        let mut y = a ^ index.wrapping_mul(0xD6E8_FEB8_6659_FD93);
        let b = splitmix(&mut y);
        SimRng::new(a ^ b.rotate_left(29) ^ index)
    }

    /// Independent sub-stream; does not advance `self`.
    pub fn split(&self, label: &str) -> SimRng {
        let mut x = self.s[0] ^ self.s[2].rotate_left(13) ^ fnv64(label);
        let a = splitmix(&mut x);
        SimRng::new(a ^ self.s[1] ^ self.s[3].rotate_left(31))
    }

    pub fn split_idx(&self, label: &str, i: u64) -> SimRng {
        let mut x = self.s[0] ^ self.s[2].rotate_left(13) ^ fnv64(label) ^ i.wrapping_mul(0x9E37_79B9_7F4A_7C15);
        let a = splitmix(&mut x);
        SimRng::new(a ^ self.s[1] ^ self.s[3].rotate_left(31) ^ i)
    }

    pub fn next_u64(&mut self) -> u64 {
        let r = self.s[1].wrapping_mul(5).rotate_left(7).wrapping_mul(9);
        let t = self.s[1] << 17;
        self.s[2] ^= self.s[0];
        self.s[3] ^= self.s[1];
        self.s[1] ^= self.s[2];
        self.s[0] ^= self.s[3];
        self.s[2] ^= t;
        self.s[3] = self.s[3].rotate_left(45);
        r
    }

    /// Uniform in 0..n (n > 0).
    pub fn below(&mut self, n: u64) -> u64 {
        assert!(n > 0);
        // rejection-free multiply-shift is fine here; bias < 2^-32 for the sizes used
        ((u128::from(self.next_u64()) * u128::from(n)) >> 64) as u64
    }

    pub fn usize_below(&mut self, n: usize) -> usize {
        self.below(n as u64) as usize
    }

    /// Uniform in lo..=hi.
    pub fn range(&mut self, lo: u64, hi: u64) -> u64 {
        assert!(lo <= hi);
        if lo == 0 && hi == u64::MAX {
            return self.next_u64();
        }
        lo + self.below(hi - lo + 1)
    }

    pub fn chance(&mut self, num: u64, den: u64) -> bool {
        self.below(den) < num
    }

    pub fn pick<'a, T>(&mut self, xs: &'a [T]) -> &'a T {
        &xs[self.usize_below(xs.len())]
    }

    pub fn fill(&mut self, dest: &mut [u8]) {
        for chunk in dest.chunks_mut(8) {
            let v = self.next_u64().to_le_bytes();
            chunk.copy_from_slice(&v[..chunk.len()]);
        }
    }

    pub fn bytes32(&mut self) -> [u8; 32] {
        let mut b = [0u8; 32];
        self.fill(&mut b);
        b
    }

    /// Uniform scalar (wide reduction).
    pub fn scalar(&mut self) -> Scalar {
        let mut b = [0u8; 64];
        self.fill(&mut b);
        Scalar::from_bytes_mod_order_wide(&b)
    }

    pub fn scalar_nz(&mut self) -> Scalar {
        loop {
            let s = self.scalar();
            if s != Scalar::ZERO {
                return s;
            }
        }
    }

    pub fn shuffle<T>(&mut self, xs: &mut [T]) {
        for i in (1..xs.len()).rev() {
            let j = self.usize_below(i + 1);
            xs.swap(i, j);
        }
    }
}
