//! Instruction-level scheduler for real threads: Miri. The schedule that matters for the two
//! lazily initialised statics and the shared `Arc` tables lives inside `once_cell` and `std`,
//! code that must not be stubbed. Miri interprets the real thing, chooses every preemption from
//! `-Zmiri-seed`, reports data races and other undefined behaviour, and the same seed replays the
//! same execution. One seed = one schedule.

use std::{
    collections::BTreeSet,
    path::PathBuf,
    process::Command,
    sync::{
        atomic::{AtomicUsize, Ordering},
        Mutex,
    },
};

use serde::{Deserialize, Serialize};
use serde_json::json;

use crate::runner::{ExtraPhase, Violation};

#[derive(Clone, Debug, Serialize, Deserialize)]
pub struct MiriRun {
    pub args: Vec<String>,
    pub seed: u64,
    pub preemption_rate: String,
}

#[derive(Clone, Debug)]
pub enum MiriOutcome {
    Ok { sig: String },
    Mismatch { what: String, sig: String },
    UndefinedBehaviour { report: String },
    Deadlock { report: String },
    HarnessError { report: String },
}

pub fn run_miri(root: &PathBuf, r: &MiriRun) -> MiriOutcome {
    let manifest = root.join("sim/miri-sched/Cargo.toml");
    let out = Command::new("cargo")
        .arg("+nightly")
        .arg("miri")
        .arg("run")
        .arg("--offline")
        .arg("-q")
        .arg("--manifest-path")
        .arg(&manifest)
        .arg("--")
        .args(&r.args)
        .env("MIRIFLAGS", format!("-Zmiri-seed={} -Zmiri-preemption-rate={}", r.seed, r.preemption_rate))
        .env("CARGO_NET_OFFLINE", "true")
        .env_remove("RUSTFLAGS")
        .output();
    let out = match out {
        Ok(o) => o,
        Err(e) => return MiriOutcome::HarnessError { report: format!("cannot start cargo miri: {}", e) },
    };
    let stdout = String::from_utf8_lossy(&out.stdout).to_string();
    let stderr = String::from_utf8_lossy(&out.stderr).to_string();
    let sig = stdout.lines().find_map(|l| l.strip_prefix("SIG ")).unwrap_or("").to_string();
    let tail = |s: &str| s.lines().rev().take(40).collect::<Vec<_>>().into_iter().rev().collect::<Vec<_>>().join("\n");
    if let Some(l) = stdout.lines().find(|l| l.starts_with("RESULT ")) {
        if l.trim() == "RESULT ok" && out.status.success() {
            return MiriOutcome::Ok { sig };
        }
        if let Some(w) = l.strip_prefix("RESULT mismatch ") {
            return MiriOutcome::Mismatch { what: w.to_string(), sig };
        }
    }
    if stderr.contains("Undefined Behavior") || stderr.contains("Data race detected") || stderr.contains("unsupported operation") && stderr.contains("tari_bulletproofs_plus") {
        return MiriOutcome::UndefinedBehaviour { report: tail(&stderr) };
    }
    if stderr.contains("deadlock") {
        return MiriOutcome::Deadlock { report: tail(&stderr) };
    }
    if stderr.contains("panicked at") && !stderr.contains("could not compile") {
        return MiriOutcome::Mismatch { what: format!("panic under Miri: {}", tail(&stderr)), sig };
    }
    MiriOutcome::HarnessError { report: format!("exit {:?}\nstdout: {}\nstderr: {}", out.status.code(), tail(&stdout), tail(&stderr)) }
}

pub fn violation_of(r: &MiriRun, o: &MiriOutcome) -> Option<Violation> {
    let scen = r.args.join(" ");
    match o {
        MiriOutcome::Ok { .. } | MiriOutcome::HarnessError { .. } => None,
        MiriOutcome::Mismatch { what, sig } => Some(Violation::new(
            "threads_observe_state_differing_from_reference",
            format!("{} {}", r.args.first().cloned().unwrap_or_default(), what.split(':').nth(1).unwrap_or(what).trim()),
            format!("miri scenario `{}` seed {} preemption-rate {}: {} (schedule {})", scen, r.seed, r.preemption_rate, what, sig),
        )),
        MiriOutcome::UndefinedBehaviour { report } => Some(Violation::new(
            "miri_reports_data_race_or_undefined_behaviour",
            r.args.first().cloned().unwrap_or_default(),
            format!("miri scenario `{}` seed {} preemption-rate {}:\n{}", scen, r.seed, r.preemption_rate, report),
        )),
        MiriOutcome::Deadlock { report } => Some(Violation::new(
            "deadlock_under_schedule",
            r.args.first().cloned().unwrap_or_default(),
            format!("miri scenario `{}` seed {} preemption-rate {}:\n{}", scen, r.seed, r.preemption_rate, report),
        )),
    }
}

/// Execute `runs` on `jobs` workers (each a separate interpreter process) and fold the outcomes
/// into an extra phase. The first run is executed alone so that the Miri build is warm.
pub fn miri_phase(name: &str, root: &PathBuf, runs: Vec<MiriRun>, jobs: usize) -> ExtraPhase {
    let mut ph = ExtraPhase { name: name.to_string(), ..Default::default() };
    // development aids: BPSIM_MIRI_FILTER=<substring of the scenario argv>, BPSIM_MIRI_MAX=<n>
    let mut runs = runs;
    if let Ok(f) = std::env::var("BPSIM_MIRI_FILTER") {
        runs.retain(|r| r.args.iter().take(4).cloned().collect::<Vec<_>>().join(" ").contains(&f));
    }
    if let Some(n) = std::env::var("BPSIM_MIRI_MAX").ok().and_then(|s| s.parse::<usize>().ok()) {
        runs.truncate(n);
    }
    let verbose = std::env::var("BPSIM_MIRI_VERBOSE").is_ok();
    if runs.is_empty() {
        return ph;
    }
    let results: Mutex<Vec<(usize, MiriOutcome)>> = Mutex::new(Vec::new());
    let first = run_miri(root, &runs[0]);
    if let MiriOutcome::HarnessError { report } = &first {
        ph.error = Some(format!("miri could not run: {}", report));
        return ph;
    }
    results.lock().unwrap().push((0, first));
    let next = AtomicUsize::new(1);
    std::thread::scope(|sc| {
        for _ in 0..jobs.max(1) {
            sc.spawn(|| loop {
                let i = next.fetch_add(1, Ordering::Relaxed);
                if i >= runs.len() {
                    break;
                }
                let o = run_miri(root, &runs[i]);
                if verbose {
                    eprintln!("miri run {} {:?} seed {} rate {} -> {:?}", i, runs[i].args.iter().take(4).collect::<Vec<_>>(), runs[i].seed, runs[i].preemption_rate, o);
                }
                results.lock().unwrap().push((i, o));
            });
        }
    });
    let mut results = results.into_inner().unwrap();
    results.sort_by_key(|(i, _)| *i);
    let mut sigs = BTreeSet::new();
    let mut per_scenario: std::collections::BTreeMap<String, u64> = Default::default();
    for (i, o) in &results {
        let r = &runs[*i];
        ph.evaluations += 1;
        ph.runs += 1;
        let short: Vec<String> = r.args.iter().map(|a| if a.len() > 24 { format!("{}..({} chars)", &a[..12], a.len()) } else { a.clone() }).collect();
        *per_scenario.entry(short.join(" ")).or_insert(0) += 1;
        *ph.faults.entry(format!("miri_schedule_preemption_rate_{}", r.preemption_rate)).or_insert(0) += 1;
        match o {
            MiriOutcome::Ok { sig } => {
                sigs.insert(format!("{}|{}", short.join(" "), sig));
            },
            MiriOutcome::HarnessError { report } => {
                ph.error = Some(format!("miri run {} ({:?}, seed {}): {}", i, r.args, r.seed, report));
            },
            other => {
                if let Some(v) = violation_of(r, other) {
                    if ph.found.len() < 3 {
                        ph.found.push((v, json!({ "miri": r })));
                    }
                }
            },
        }
    }
    ph.distinct = sigs.len() as u64;
    ph.info = json!({
        "interpreter": "Miri (nightly), -Zmiri-seed per run, real once_cell / std::sync / library code",
        "runs_per_scenario": per_scenario,
        "distinct_schedule_signatures": sigs.len(),
        "sample_signatures": sigs.iter().take(5).collect::<Vec<_>>(),
        "seeds": format!("{}..={}", runs.first().map(|r| r.seed).unwrap_or(0), runs.last().map(|r| r.seed).unwrap_or(0)),
    });
    ph
}
